#!/bin/bash
# offline setup: syntax/semantic check of every specification + a tiny TLC smoke run
set -e
cd "$(dirname "$0")/spec"
for m in *.tla; do
  tla-sany "$m" > /tmp/sany_$$.log 2>&1 || { cat /tmp/sany_$$.log; exit 1; }
  if grep -q "Semantic errors\|\*\*\* Errors\|Parsing or semantic analysis failed" /tmp/sany_$$.log; then cat /tmp/sany_$$.log; exit 1; fi
done
rm -f /tmp/sany_$$.log
cd ..
mkdir -p .work evidence
PYTHONPATH=/repo:$(pwd)/harness /venv/bin/python -W ignore harness/smoke.py
echo "setup ok"
