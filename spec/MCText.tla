------------------------------- MODULE MCText -------------------------------
(***************************************************************************)
(* C27 / C28: recorded solver input and output text judged with the        *)
(* readers of Text.tla.  One case = one recorded exchange:                 *)
(*   dimacs    bytes written for the solver + the CNF object's clauses     *)
(*   libparse  the same bytes + what the library's own parser recovered    *)
(*   solver    solver output text + the assignment the library returned    *)
(*   update    file before / after the blocking clause was added           *)
(*   opb       OPB text + clauses and cardinality requests (all            *)
(*             assignments of the variables are enumerated: action Choose) *)
(*   opbupdate OPB text after the blocking constraint was appended         *)
(***************************************************************************)
EXTENDS Text, Json, IOUtils

Cases == JsonDeserialize(IOEnv.VERIF_CASES)
NC == Len(Cases)

\* ph: "load" -> "judge" (the judgement is made on the second state so that TLC's workers share the cases)
VARIABLES c, bits, ph
vars == <<c, bits, ph>>
Init == c \in 1..NC /\ bits = <<>> /\ ph = "load"
NBits(cs) == IF cs.kind \in {"opb", "opbupdate"} THEN cs.nv ELSE 0
Choose(b) == bits' = Append(bits, b) /\ UNCHANGED ph
Next == /\ \/ (ph = "load" /\ ph' = "judge" /\ UNCHANGED bits)
           \/ (ph = "judge" /\ Len(bits) < NBits(Cases[c]) /\ \E b \in BOOLEAN : Choose(b))
        /\ UNCHANGED c
Spec == Init /\ [][Next]_vars

Abs(x) == IF x < 0 THEN -x ELSE x
MaxAbs(cls) == LET S == UNION { { Abs(cls[k][j]) : j \in 1..Len(cls[k]) } : k \in 1..Len(cls) } IN
               IF S = {} THEN 0 ELSE CHOOSE m \in S : \A v \in S : v <= m
\* multiset equality of two sequences of clauses
SameBag(a, b) == /\ Len(a) = Len(b)
                 /\ \A x \in { a[k] : k \in 1..Len(a) } \cup { b[k] : k \in 1..Len(b) } :
                       Cardinality({ k \in 1..Len(a) : a[k] = x }) = Cardinality({ k \in 1..Len(b) : b[k] = x })
Sorted(s) == \A i \in 1..(Len(s) - 1) : s[i] < s[i + 1]

Rel(kind, n, k) == CASE kind = "EQ" -> n = k [] kind = "LT" -> n < k [] kind = "GT" -> n > k

Judge ==
    LET cs == Cases[c] IN
    CASE cs.kind = "dimacs" ->
           LET p == ParseDimacs(cs.bytes) IN
           IF p.headers # 1 THEN "not exactly one problem line"
           ELSE IF p.rest # <<>> THEN "unterminated clause"
           ELSE IF \E k \in 1..Len(p.clauses) : \E j \in 1..Len(p.clauses[k]) : p.clauses[k][j] = 0 - 999999 THEN "non-numeric token"
           ELSE IF p.nvars < MaxAbs(cs.clauses) THEN "header declares fewer variables than the formula uses"
           ELSE IF p.nclauses # Len(p.clauses) THEN "header clause count differs from the clauses written"
           ELSE IF ~SameBag(p.clauses, cs.clauses) THEN "clauses written differ from the formula's clauses"
           ELSE IF cs.support >= 0 /\ p.ind # [k \in 1..cs.support |-> k] THEN "sampling-set lines differ from the trial-sequence variables"
           ELSE "ok"
      [] cs.kind = "libparse" ->
           LET p == ParseDimacs(cs.bytes) IN
           IF cs.lib_clauses # p.clauses THEN "library parser recovered different clauses"
           ELSE IF cs.check_ind /\ cs.lib_ind # p.ind THEN "library parser recovered a different sampling set"
           ELSE IF cs.check_ind /\ cs.lib_nvars # p.nvars THEN "library parser recovered a different variable count"
           ELSE "ok"
      [] cs.kind = "solver" ->
           IF SelectSeq(ParseVLines(cs.bytes), LAMBDA x : x # 0) # SelectSeq(cs.result, LAMBDA x : x # 0) THEN "parsed solver output differs from the solver's assignment" ELSE "ok"
      [] cs.kind = "update" ->
           LET a == ParseDimacs(cs.before)  b == ParseDimacs(cs.after) IN
           IF b.headers # 1 \/ b.rest # <<>> THEN "malformed file after update"
           ELSE IF b.clauses # Append(a.clauses, [k \in 1..Len(cs.solution) |-> 0 - cs.solution[k]])
                THEN "clauses after update are not the old clauses plus the negated previous solution"
           ELSE IF b.nclauses # a.nclauses + 1 THEN "header clause count not incremented"
           ELSE IF b.nvars # a.nvars \/ b.ind # a.ind THEN "header variables or sampling set changed"
           ELSE "ok"
      [] cs.kind = "opb" ->
           IF Len(bits) < cs.nv THEN "ok"
           ELSE LET p == ParseOpb(cs.bytes)
                    val == [v \in 1..cs.nv |-> bits[v]]
                    clausesOK == \A k \in 1..Len(cs.clauses) : \E j \in 1..Len(cs.clauses[k]) :
                                    LET l == cs.clauses[k][j] IN IF l > 0 THEN val[l] ELSE ~val[-l]
                    reqsOK == \A r \in 1..Len(cs.reqs) :
                                 Rel(cs.reqs[r].rel, Cardinality({ j \in 1..Len(cs.reqs[r].vars) : val[cs.reqs[r].vars[j]] }), cs.reqs[r].k)
                IN IF \E k \in 1..Len(p) : ~p[k].wellformed THEN "malformed OPB constraint"
                   ELSE IF PBSat(p, val) # (clausesOK /\ reqsOK) THEN
                        (IF PBSat(p, val) THEN "OPB accepts an assignment the clauses and requests reject"
                         ELSE "OPB rejects an assignment the clauses and requests accept")
                   ELSE "ok"
      [] cs.kind = "opbupdate" ->
           IF Len(bits) < cs.nv THEN "ok"
           ELSE LET before == ParseOpb(cs.before)  after == ParseOpb(cs.after)
                    val == [v \in 1..cs.nv |-> bits[v]]
                    isPrev == \A k \in 1..Len(cs.solution) : LET l == cs.solution[k] IN IF l > 0 THEN val[l] ELSE ~val[-l]
                IN IF Len(after) # Len(before) + 1 THEN "not exactly one constraint appended"
                   ELSE IF \E k \in 1..Len(after) : ~after[k].wellformed THEN "malformed OPB constraint"
                   ELSE IF PBSat(after, val) # (PBSat(before, val) /\ ~isPrev) THEN "blocking constraint does not exclude exactly the previous solution"
                   ELSE "ok"

Report == (ph = "judge" /\ Judge # "ok") => PrintT(<<"TXT", c, Judge>>)
=============================================================================
