------------------------------- MODULE Output -------------------------------
(***************************************************************************)
(* C20 / C21: what the output conversions and the tabulation must produce, *)
(* stated over experiments as the library represents them: a record        *)
(* factor name -> sequence of level names.                                 *)
(***************************************************************************)
EXTENDS Text

\* C20: one tuple / one record per trial, columns = the user-declared factors of the design, in design order
TuplesOf(exp, order) == LET T == Len(exp[order[1]]) IN
    [t \in 1..T |-> [k \in 1..Len(order) |-> exp[order[k]][t]]]
DictsOf(exp, order) == LET T == Len(exp[order[1]]) IN
    [t \in 1..T |-> [n \in { order[k] : k \in 1..Len(order) } |-> exp[n][t]]]

\* CSV bytes -> rows of cells (no quoting is needed for level names without commas)
RECURSIVE SplitOn(_, _, _, _)
SplitOn(ln, sep, i, cur) ==
    IF i > Len(ln) THEN <<cur>>
    ELSE IF ln[i] = sep THEN <<cur>> \o SplitOn(ln, sep, i + 1, <<>>)
    ELSE SplitOn(ln, sep, i + 1, Append(cur, ln[i]))
CsvRows(bs) == LET ls == SelectSeq([k \in 1..Len(Lines(bs)) |-> SelectSeq(Lines(bs)[k], LAMBDA b : b # 13)], LAMBDA ln : ln # <<>>) IN
               [k \in 1..Len(ls) |-> SplitOn(ls[k], 44, 1, <<>>)]

\* C21: the combinations of levels of the selected factors, in the order the table lists them
RECURSIVE Combos(_)
Combos(levelss) == IF levelss = <<>> THEN << <<>> >>
                   ELSE LET rest == Combos(Tail(levelss)) IN
                        FlatS([a \in 1..Len(Head(levelss)) |-> [b \in 1..Len(rest) |-> <<Head(levelss)[a]>> \o rest[b]]])
\* number of selected trials (with repetitions) showing combination cb
Freq(exp, names, trials, cb) ==
    Cardinality({ k \in 1..Len(trials) : \A j \in 1..Len(names) : exp[names[j]][trials[k] + 1] = cb[j] })

\* a printed table line:  "name value | name value | frequency n | proportion p%"
Cells(ln) == LET cs == SplitOn(ln, 124, 1, <<>>) IN [k \in 1..Len(cs) |-> Tokens(cs[k])]
\* decimal text "12.345" -> value scaled by 10^4, truncated
RECURSIVE FracDigits(_, _, _)
FracDigits(ds, n, acc) == IF n = 0 THEN acc
                          ELSE IF ds = <<>> THEN FracDigits(ds, n - 1, acc * 10)
                          ELSE FracDigits(Tail(ds), n - 1, acc * 10 + (Head(ds) - 48))
Scaled4(tok) ==   \* tok without the trailing '%'
    LET dot == { k \in 1..Len(tok) : tok[k] = 46 } IN
    IF dot = {} THEN Digits(tok, 0) * 10000
    ELSE LET d == CHOOSE k \in dot : TRUE IN
         Digits(SubSeq(tok, 1, d - 1), 0) * 10000 + FracDigits(SubSeq(tok, d + 1, Len(tok)), 4, 0)
=============================================================================
