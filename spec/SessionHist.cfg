SPECIFICATION HSpec
INVARIANT DesignStable
CHECK_DEADLOCK FALSE
