------------------------------- MODULE MCLaws -------------------------------
(***************************************************************************)
(* C25 / C26: the properties as the documentation words them, stated       *)
(* directly on complete sequences, and compared with Design!Valid (which   *)
(* goes through the geometry of Blocks.tla) on EVERY sequence of the right *)
(* length of tiny designs (generator with pruning off):                    *)
(*                                                                         *)
(*  NestGroups   a Nest(outer, inner) sequence consists of consecutive     *)
(*               groups of the inner length, one per outer trial; outer    *)
(*               crossed factors are constant in a group; the outer block  *)
(*               holds over the sequence of groups; the inner block holds  *)
(*               within each group; length = outer x inner.                *)
(*  PerRepetition  a Repeat(b, cs) sequence (no preamble, whole            *)
(*               repetitions) is valid iff every repetition is a valid     *)
(*               sequence of b and cs holds over the whole sequence.       *)
(*                                                                         *)
(* A LAW record is printed for every sequence on which the literal         *)
(* statement and Valid disagree.  This is a check of the SPECIFICATION     *)
(* against the property text (the implementation is compared with Valid by *)
(* MCEnum / MCTrace).                                                      *)
(***************************************************************************)
EXTENDS Design, Json, IOUtils

Cases == JsonDeserialize(IOEnv.VERIF_CASES)
NC == Len(Cases)
ASSUME TLCSet(1, IODeserialize(IOEnv.VERIF_NORM, FALSE))
Pre == TLCGet(1)
FN == Pre[1]
NB == Pre[2]
CH == Pre[3]
\* normal forms of the parts (outer / inner of a Nest, the repeated block of a Repeat)
PartsDef == TLCEval([d \in 1..NC |->
    LET b == Cases[d].block IN
    IF b.op = "Nest" THEN [o |-> NormTop(FN[d], b.outer), n |-> NormTop(FN[d], b.inner)]
    ELSE IF b.op = "Repeat" THEN [o |-> NormTop(FN[d], b.block), n |-> NormTop(FN[d], b.block)]
    ELSE [o |-> NB[d], n |-> NB[d]]])
ASSUME TLCSet(2, PartsDef)
Parts == TLCGet(2)

VARIABLES c, seq
vars == <<c, seq>>
Init == c \in { d \in 1..NC : NB[d].ok /\ ~NB[d].unsat } /\ seq = <<>>
Successors == { Append(seq, Fill(FN[c], NB[c], seq, ch, Len(seq), 1)) : ch \in CH[c] }
Next == Len(seq) < NB[c].T /\ \E s2 \in Successors : seq' = s2 /\ UNCHANGED c
Spec == Init /\ [][Next]_vars

\* a trial restricted to the design of a part (other factors read 0, as in sequences of that part alone)
RestrictTo(tr, design) == [i \in 1..Len(tr) |-> IF i \in RangeS(design) THEN tr[i] ELSE 0]

NestGroups(F, o, n, s) ==
    LET u == n.T  G == o.T IN
    /\ Len(s) = G * u
    /\ \A g \in 0..(G - 1) :
          /\ \A x \in 1..Len(o.X) : \A j \in 1..Len(o.X[x].fs) : \A t \in 2..u :
                s[g * u + t][o.X[x].fs[j]] = s[g * u + 1][o.X[x].fs[j]]
          /\ Valid(F, n, [t \in 1..u |-> RestrictTo(s[g * u + t], n.design)])
    /\ Valid(F, o, [g \in 1..G |-> RestrictTo(s[(g - 1) * u + 1], o.design)])

\* the combinator's own constraints, scoped to the whole sequence
GlobalCons(F, nb, ks, s) ==
    \A j \in 1..Len(ks) :
        LET k == WithGeom(ks[j], [has |-> TRUE, gn |-> nb.T, gp |-> 0, gu |-> 1, gx |-> {}]) @@ [wins |-> { <<0, nb.T>> }]
        IN ConOK(F, nb, k, s)

PerRepetition(F, nb, b, ks, s) ==
    LET n == b.T  R == nb.T \div n IN
    /\ Len(s) = nb.T
    /\ \A r \in 0..(R - 1) : Valid(F, b, [t \in 1..n |-> s[r * n + t]])
    /\ GlobalCons(F, nb, ks, s)

Literal == LET blk == Cases[c].block IN
    IF blk.op = "Nest" THEN NestGroups(FN[c], Parts[c].o, Parts[c].n, seq)
    ELSE PerRepetition(FN[c], NB[c], Parts[c].n, blk.cons, seq)

NoMinus(s) == \A t \in 1..Len(s) : \A i \in 1..Len(s[t]) : s[t][i] # -1

Report == (Len(seq) = NB[c].T /\ NoMinus(seq)) =>
            LET v == Valid(FN[c], NB[c], seq)  l == Literal IN
            (v # l) => PrintT(<<"LAW", c, v, l, seq>>)
Count == (Len(seq) = NB[c].T /\ NoMinus(seq) /\ Valid(FN[c], NB[c], seq)) => PrintT(<<"LAWOK", c>>)
=============================================================================
