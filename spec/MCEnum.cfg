SPECIFICATION Spec
INVARIANT Report
CONSTRAINT Depth
CHECK_DEADLOCK FALSE
