------------------------------- MODULE MCTrace ------------------------------
(***************************************************************************)
(* Trace mode (code -> specification).  Every sequence the implementation  *)
(* returned is replayed as a trace: one Step per recorded trial, using the *)
(* same Fill / clause operators as the generator; the total variable       *)
(* `verdict` names the first clause that fails.  One record per trace is   *)
(* printed, plus one NB record per case with the block arithmetic (C16).   *)
(***************************************************************************)
EXTENDS Design, Json, IOUtils

Cases == JsonDeserialize(IOEnv.VERIF_CASES)
NC == Len(Cases)
\* per-case normal forms, computed once by MCNorm (phase 0) and read back as constants
\* (kept in a TLC register: TLC re-evaluates IODeserialize at every mention otherwise)
ASSUME TLCSet(1, IODeserialize(IOEnv.VERIF_NORM, FALSE))
Pre == TLCGet(1)
FN == Pre[1]
NB == Pre[2]

VARIABLES c, i, seq, verdict
vars == <<c, i, seq, verdict>>

Tr == Cases[c].traces[i]

\* acceptable error of the run being validated (RandomGen(acceptable_error)); 0 = the design as documented
ErrBudget == IF "VERIF_ERR" \in DOMAIN IOEnv THEN (CHOOSE e \in 0..9 : ToString(e) = IOEnv.VERIF_ERR) ELSE 0
\* i = 0 is the pseudo-trace that reports the block arithmetic
Init == /\ c \in 1..NC
        /\ i \in 0..Len(Cases[c].traces)
        /\ seq = <<>>
        /\ verdict = IF i = 0 THEN "info" ELSE "run"

BasicPart(F, nb, tr) == [j \in 1..Len(F) |-> IF F[j].kind = "b" /\ j \in RangeS(nb.design) THEN tr[j] ELSE 0]

\* consume one recorded trial
Step == /\ verdict = "run" /\ Tr.n >= 0 /\ Len(seq) < Len(Tr.s)
        /\ LET F == FN[c]  nb == NB[c]  t == Len(seq)  tr == Tr.s[t + 1] IN
           IF ~nb.ok THEN verdict' = "block refused" /\ seq' = seq
           ELSE IF ~LevelsOK(F, nb, tr, t) THEN verdict' = "levels" /\ seq' = seq
           ELSE IF Fill(F, nb, seq, BasicPart(F, nb, tr), t, 1) # tr THEN verdict' = "derived" /\ seq' = seq
           ELSE IF ~SustainOK(F, nb, seq, tr, t) THEN verdict' = "sustain" /\ seq' = seq
           ELSE seq' = Append(seq, tr) /\ verdict' = "run"
        /\ UNCHANGED <<c, i>>

\* all trials consumed: closing clauses
Finish == /\ verdict = "run" /\ (Tr.n < 0 \/ Len(seq) = Len(Tr.s))
          /\ verdict' = IF Tr.n < 0 THEN "ragged columns"
                        ELSE IF Len(Tr.hidden) > 0 THEN "hidden factor exposed"
                        ELSE IF ErrBudget = 0 THEN Verdict(FN[c], NB[c], seq)
                        ELSE VerdictErr(FN[c], NB[c], seq, ErrBudget)
          /\ UNCHANGED <<c, i, seq>>

Next == Step \/ Finish
Spec == Init /\ [][Next]_vars

Info == LET nb == NB[c] IN
        IF nb.ok THEN <<"NB", c, TRUE, nb.T, nb.unsat, [x \in 1..Len(nb.X) |-> <<nb.X[x].size, nb.X[x].w, nb.X[x].start, nb.X[x].su>>],
                        nb.rccerr>>
        ELSE <<"NB", c, FALSE, nb.err>>

Report == /\ (verdict = "info") => PrintT(Info)
          /\ (verdict \notin {"info", "run"}) =>
                 PrintT(<<"V", c, i, verdict, IF verdict = "ok" THEN Mult(FN[c], NB[c], seq) ELSE 0,
                                                IF verdict = "ok" THEN MultDoc(FN[c], NB[c], seq) ELSE 0>>)
=============================================================================
