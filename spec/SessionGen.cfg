SPECIFICATION GenSpec
INVARIANT GenReport
CHECK_DEADLOCK FALSE
