------------------------------ MODULE MCModels ------------------------------
(***************************************************************************)
(* C03: models of the complete formula SweetPea compiles for a design.     *)
(* The state machine is DPLL over the trial-sequence variables             *)
(* 1..support in order (Decide = assign the lowest unassigned one, then    *)
(* unit propagation; conflicts are dead ends).  When all of them are       *)
(* assigned, Cnf!Count counts the extensions to the auxiliary variables:   *)
(* the README's one-to-one correspondence demands exactly one.  One MODEL  *)
(* record per consistent assignment of the trial-sequence variables is     *)
(* printed; the harness decodes them with the library's own decoder and    *)
(* the sequences go through MCTrace / MCEnum (every model is a valid       *)
(* sequence, every valid sequence has a model).                            *)
(***************************************************************************)
EXTENDS Cnf, Json, IOUtils

Cases == JsonDeserialize(IOEnv.VERIF_CASES)
NC == Len(Cases)
ASSUME TLCSet(1, TLCEval([d \in 1..NC |-> TLCEval(OccOf(Cases[d].nv, Cases[d].clauses))]))
Occ == TLCGet(1)

VARIABLES c, asg
vars == <<c, asg>>

Init == /\ c \in 1..NC
        /\ asg = InitAsg(Cases[c].nv, Cases[c].clauses, Occ[c])

FreeSupport == { v \in 1..Cases[c].support : asg[v] = 0 }

Decide(v, b) == asg' = Assign(Cases[c].clauses, Occ[c], asg, v, b)

Next == /\ asg # <<>> /\ FreeSupport # {}
        /\ LET v == CHOOSE v \in FreeSupport : \A u \in FreeSupport : v <= u IN
           \E b \in {1, -1} : Decide(v, b)
        /\ UNCHANGED c
Spec == Init /\ [][Next]_vars

\* variables declared in the header range but mentioned by no clause are free for a sampler: each doubles the models
Unmentioned == ((Cases[c].support + 1)..Cases[c].nv) \ VarsOf(Cases[c].clauses)

Report ==
    /\ (asg # <<>> /\ FreeSupport = {}) =>
          LET n == Count(Cases[c].clauses, Occ[c], asg, 3) IN
          n > 0 => PrintT(<<"MODEL", c, n, { v \in 1..Cases[c].support : asg[v] = 1 }>>)
    /\ (TLCGet("level") = 1 /\ Unmentioned # {}) => PrintT(<<"UNMENTIONED", c, Unmentioned>>)
=============================================================================
