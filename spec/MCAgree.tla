------------------------------- MODULE MCAgree ------------------------------
(***************************************************************************)
(* C07: the set of sequences IterateSATGen returned when exhausted and the *)
(* set RandomGen returned when exhausted must be the same set.  No reading *)
(* of the documentation is involved.  One state per case; a DIFF record is *)
(* printed for every sequence that is in one set and not in the other.     *)
(***************************************************************************)
EXTENDS Naturals, Sequences, FiniteSets, TLC, Json, IOUtils

Cases == JsonDeserialize(IOEnv.VERIF_CASES)
NC == Len(Cases)
SetOf(s) == { s[k] : k \in 1..Len(s) }

VARIABLES c, phase
vars == <<c, phase>>
Init == c \in 1..NC /\ phase = "compare"
Next == phase = "compare" /\ phase' = "done" /\ UNCHANGED c
Spec == Init /\ [][Next]_vars

OnlyA == SetOf(Cases[c].a) \ SetOf(Cases[c].b)
OnlyB == SetOf(Cases[c].b) \ SetOf(Cases[c].a)
Report == phase = "done" =>
            /\ \A s \in OnlyA : PrintT(<<"DIFF", c, "a", s>>)
            /\ \A s \in OnlyB : PrintT(<<"DIFF", c, "b", s>>)
            /\ PrintT(<<"SAME", c, OnlyA = {} /\ OnlyB = {}, Cardinality(SetOf(Cases[c].a)), Cardinality(SetOf(Cases[c].b))>>)
=============================================================================
