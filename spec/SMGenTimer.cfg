SPECIFICATION Spec
CONSTANTS
  STEPS = 4
  ANSWERS = 2
INVARIANT AnswersOnlyFromSearch
INVARIANT Schedule
PROPERTY TimerHarmless
CHECK_DEADLOCK FALSE
