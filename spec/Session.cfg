SPECIFICATION TraceSpec
INVARIANT TraceReport
CHECK_DEADLOCK FALSE
