----------------------------- MODULE RandomLoop -----------------------------
(***************************************************************************)
(* C05: one candidate of RandomGen as a tree of random draws.              *)
(*                                                                         *)
(* The harness runs the real RandomGen.sample(block, 1) with a scripted    *)
(* random.randrange and explores every draw path of the first candidate    *)
(* (a path ends when the candidate is accepted and returned, or when it is *)
(* rejected and the sampler starts drawing a second candidate).  The       *)
(* recorded leaves are replayed here: action Draw follows one recorded     *)
(* draw <<range, value>>; a node is well formed iff all recorded           *)
(* continuations ask for the same range and cover 0..range-1 exactly once  *)
(* (so the leaves really are all the outcomes, with probability            *)
(* 1 / product of ranges each).  Uniformity is then a statement about the  *)
(* accepted leaves: every sequence is produced by exactly one of them, and *)
(* all sequences have the same total probability.                          *)
(***************************************************************************)
EXTENDS Naturals, Integers, Sequences, FiniteSets, TLC, Json, IOUtils, SequencesExt

Cases == JsonDeserialize(IOEnv.VERIF_CASES)
NC == Len(Cases)
Leaves(c) == Cases[c].leaves

\* state: the set S of recorded leaves that share the draws made so far (d of them), and the product of their ranges
VARIABLES c, d, S, den
vars == <<c, d, S, den>>

Init == c \in 1..NC /\ d = 0 /\ S = 1..Len(Leaves(c)) /\ den = 1

Longer == { i \in S : Len(Leaves(c)[i].draws) > d }
Here == { i \in S : Len(Leaves(c)[i].draws) = d }
Nexts == { Leaves(c)[i].draws[d + 1] : i \in Longer }

\* follow one recorded draw <<range, value>>
Draw(dr) == /\ S' = { i \in Longer : Leaves(c)[i].draws[d + 1] = dr }
            /\ d' = d + 1
            /\ den' = den * dr[1]
Next == /\ \E dr \in Nexts : Draw(dr)
        /\ UNCHANGED c
Spec == Init /\ [][Next]_vars

NodeVerdict ==
    LET ranges == { dr[1] : dr \in Nexts } IN
    IF Here # {} /\ Longer # {} THEN "a leaf is a prefix of another path"
    ELSE IF Cardinality(Here) > 1 THEN "the same draws recorded twice"
    ELSE IF S = {} THEN "dangling node"
    ELSE IF Longer = {} THEN "ok"
    ELSE IF Cardinality(ranges) # 1 THEN "different ranges requested after the same draws"
    ELSE LET n == CHOOSE n \in ranges : TRUE IN
         IF { dr[2] : dr \in Nexts } # 0..(n - 1) THEN "draw values do not cover the range" ELSE "ok"

-----------------------------------------------------------------------------
(* uniformity over the accepted leaves (evaluated once per case, at the root) *)
RECURSIVE Gcd(_, _)
Gcd(a, b) == IF b = 0 THEN a ELSE Gcd(b, a % b)
Lcm(a, b) == (a \div Gcd(a, b)) * b
RECURSIVE DenOf(_)
DenOf(ds) == IF ds = <<>> THEN 1 ELSE ds[1][1] * DenOf(Tail(ds))
Acc(cc) == { i \in 1..Len(Leaves(cc)) : Leaves(cc)[i].acc }
RECURSIVE LcmAll(_, _)
LcmAll(cc, Q) == IF Q = {} THEN 1 ELSE LET i == CHOOSE i \in Q : TRUE IN Lcm(DenOf(Leaves(cc)[i].draws), LcmAll(cc, Q \ {i}))
RECURSIVE MassSum(_, _, _)
MassSum(cc, D, Q) == IF Q = {} THEN 0
                     ELSE LET i == CHOOSE i \in Q : TRUE IN (D \div DenOf(Leaves(cc)[i].draws)) + MassSum(cc, D, Q \ {i})

\* R11: a sequence whose Design!Mult is m stands for m distinct solutions (copies of weighted levels of uncrossed
\* factors): it must be produced by exactly m accepted candidates, and probability per solution must be equal
Uniform(cc) ==
    LET acc == Acc(cc)
        seqs == { Leaves(cc)[i].seq : i \in acc }
        D == LcmAll(cc, acc)
        of(s) == { i \in acc : Leaves(cc)[i].seq = s }
        mass == TLCEval([s \in seqs |-> MassSum(cc, D, of(s))])
        mult == TLCEval([s \in seqs |-> Leaves(cc)[CHOOSE i \in of(s) : TRUE].mult])
    IN IF \E s \in seqs : Cardinality(of(s)) # mult[s]
       THEN "the number of accepted candidates for a sequence differs from its multiplicity"
       ELSE IF seqs # {} /\ (LET s0 == CHOOSE s \in seqs : TRUE IN \E s \in seqs : mass[s] * mult[s0] # mass[s0] * mult[s])
            THEN "solutions are not equally likely"
       ELSE "ok"

Report == /\ (NodeVerdict # "ok") => PrintT(<<"TREE", c, d, NodeVerdict>>)
          /\ (d = 0) => PrintT(<<"UNIF", c, Uniform(c), Cardinality(Acc(c)), Len(Leaves(c))>>)
=============================================================================
