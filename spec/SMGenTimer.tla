----------------------------- MODULE SMGenTimer -----------------------------
(***************************************************************************)
(* C29, schedules: SMGen's search runs in the calling thread while a       *)
(* threading.Timer (EXEC_TH seconds) is armed; the timer is cancelled      *)
(* after the first answer.  PlusCal model of the two threads: the search   *)
(* makes STEPS draws from the random source per answer; the timer thread   *)
(* may fire between any two steps unless it was cancelled.  Its handler    *)
(* runs in the timer thread and (requirement) must not change what the     *)
(* search computes: TimerHarmless is the action property, AnswersOnlyFrom  *)
(* Search the resulting invariant.  Every interleaving is a schedule       *)
(* "fire after the k-th draw" (firedAt); TLC enumerates them and the       *)
(* harness realises each with a fake Timer fired from a second thread at   *)
(* the k-th call of the search's random source, comparing the answers with *)
(* the run in which the timer never fires.                                 *)
(***************************************************************************)
EXTENDS Naturals, Integers, Sequences, TLC
CONSTANTS STEPS, ANSWERS

(* --algorithm SMGenTimer
variables draws = 0,            \* calls of the random source so far (the search state)
          answers = <<>>,       \* one entry per answer: the number of draws it consumed
          cancelled = FALSE,
          firedAt = -1,         \* -1: the timer has not fired
          handlerRaised = FALSE;

process Main = "main"
variable i = 0;
begin
  Arm:    skip;                                   \* timer.start()
  Loop:   while Len(answers) < ANSWERS do
            i := 0;
  Search:   while i < STEPS do
              draws := draws + 1;                 \* one step of sm_backtrack_random
              i := i + 1;
            end while;
  Answer:   answers := Append(answers, draws);
  Cancel:   cancelled := TRUE;                    \* timer.cancel() after every answer
          end while;
end process

process Timer = "timer"
begin
  Fire:   if ~cancelled then
            firedAt := draws;
            handlerRaised := TRUE;                \* the handler raises inside the timer thread only
          end if;
end process
end algorithm *)
\* BEGIN TRANSLATION
VARIABLES pc, draws, answers, cancelled, firedAt, handlerRaised, i

vars == << pc, draws, answers, cancelled, firedAt, handlerRaised, i >>

ProcSet == {"main"} \cup {"timer"}

Init == (* Global variables *)
        /\ draws = 0
        /\ answers = <<>>
        /\ cancelled = FALSE
        /\ firedAt = -1
        /\ handlerRaised = FALSE
        (* Process Main *)
        /\ i = 0
        /\ pc = [self \in ProcSet |-> CASE self = "main" -> "Arm"
                                        [] self = "timer" -> "Fire"]

Arm == /\ pc["main"] = "Arm"
       /\ TRUE
       /\ pc' = [pc EXCEPT !["main"] = "Loop"]
       /\ UNCHANGED << draws, answers, cancelled, firedAt, handlerRaised, i >>

Loop == /\ pc["main"] = "Loop"
        /\ IF Len(answers) < ANSWERS
              THEN /\ i' = 0
                   /\ pc' = [pc EXCEPT !["main"] = "Search"]
              ELSE /\ pc' = [pc EXCEPT !["main"] = "Done"]
                   /\ i' = i
        /\ UNCHANGED << draws, answers, cancelled, firedAt, handlerRaised >>

Search == /\ pc["main"] = "Search"
          /\ IF i < STEPS
                THEN /\ draws' = draws + 1
                     /\ i' = i + 1
                     /\ pc' = [pc EXCEPT !["main"] = "Search"]
                ELSE /\ pc' = [pc EXCEPT !["main"] = "Answer"]
                     /\ UNCHANGED << draws, i >>
          /\ UNCHANGED << answers, cancelled, firedAt, handlerRaised >>

Answer == /\ pc["main"] = "Answer"
          /\ answers' = Append(answers, draws)
          /\ pc' = [pc EXCEPT !["main"] = "Cancel"]
          /\ UNCHANGED << draws, cancelled, firedAt, handlerRaised, i >>

Cancel == /\ pc["main"] = "Cancel"
          /\ cancelled' = TRUE
          /\ pc' = [pc EXCEPT !["main"] = "Loop"]
          /\ UNCHANGED << draws, answers, firedAt, handlerRaised, i >>

Main == Arm \/ Loop \/ Search \/ Answer \/ Cancel

Fire == /\ pc["timer"] = "Fire"
        /\ IF ~cancelled
              THEN /\ firedAt' = draws
                   /\ handlerRaised' = TRUE
              ELSE /\ TRUE
                   /\ UNCHANGED << firedAt, handlerRaised >>
        /\ pc' = [pc EXCEPT !["timer"] = "Done"]
        /\ UNCHANGED << draws, answers, cancelled, i >>

Timer == Fire

(* Allow infinite stuttering to prevent deadlock on termination. *)
Terminating == /\ \A self \in ProcSet: pc[self] = "Done"
               /\ UNCHANGED vars

Next == Main \/ Timer
           \/ Terminating

Spec == Init /\ [][Next]_vars

Termination == <>(\A self \in ProcSet: pc[self] = "Done")

\* END TRANSLATION

\* the timer thread never writes what the search computes
TimerHarmless == [][(pc["timer"] # pc'["timer"]) => UNCHANGED <<draws, answers>>]_vars
AnswersOnlyFromSearch == (pc["main"] = "Done") => answers = [k \in 1..ANSWERS |-> k * STEPS]
Schedule == (pc["main"] = "Done" /\ pc["timer"] = "Done") => PrintT(<<"SCHED", firedAt>>)
=============================================================================
