------------------------------ MODULE MCGadget ------------------------------
(***************************************************************************)
(* C10, C11, C12: the clause sets SweetPea generates for cardinality       *)
(* requests, adder / population-count circuits and formula conversions,    *)
(* recorded from the real functions, are judged for EVERY assignment of    *)
(* their input variables.  The state machine enumerates the input          *)
(* assignments bit by bit (action Choose); at a complete assignment the    *)
(* DPLL counter of Cnf.tla says how many extensions to the auxiliary       *)
(* variables exist, and the expected value comes from the arithmetic       *)
(* definitions below (Rel, SatVal, Eval) - none of it from Python.         *)
(***************************************************************************)
EXTENDS Cnf, Json, IOUtils, SequencesExt

Cases == JsonDeserialize(IOEnv.VERIF_CASES)
NC == Len(Cases)
ASSUME TLCSet(1, TLCEval([d \in 1..NC |-> TLCEval(OccOf(Cases[d].nv, Cases[d].clauses))]))
Occ == TLCGet(1)

VARIABLES c, bits
vars == <<c, bits>>

Init == c \in 1..NC /\ bits = <<>>
Choose(b) == bits' = Append(bits, b)
Next == /\ Len(bits) < Len(Cases[c].order)
        /\ \E b \in {-1, 1} : Choose(b)
        /\ UNCHANGED c
Spec == Init /\ [][Next]_vars

-----------------------------------------------------------------------------
RECURSIVE Pow2(_)
Pow2(n) == IF n = 0 THEN 1 ELSE 2 * Pow2(n - 1)

\* assignment after unit propagation with the inputs fixed as chosen; variables that occur nowhere are
\* fixed to false so that they do not multiply the count
Start(cs) ==
    LET used == VarsOf(cs.clauses) \cup { cs.order[j] : j \in 1..Len(cs.order) }
        a0 == [v \in 1..cs.nv |-> IF v \in used THEN 0 ELSE -1]
        a1 == InitFrom(cs.clauses, Occ[c], a0, 1)
        RECURSIVE Fix(_, _)
        Fix(a, j) == IF a = <<>> \/ j > Len(cs.order) THEN a
                     ELSE IF a[cs.order[j]] = bits[j] THEN Fix(a, j + 1)
                     ELSE IF a[cs.order[j]] = -bits[j] THEN <<>>
                     ELSE Fix(Assign(cs.clauses, Occ[c], a, cs.order[j], bits[j]), j + 1)
    IN Fix(a1, 1)

BitOf(v) == LET j == CHOOSE j \in 1..Len(Cases[c].order) : Cases[c].order[j] = v IN IF bits[j] = 1 THEN 1 ELSE 0
\* value of a list of variables (most significant first) under model m
RECURSIVE ValOf(_, _)
ValOf(m, vs) == IF vs = <<>> THEN 0 ELSE (IF m[Last(vs)] = 1 THEN 1 ELSE 0) + 2 * ValOf(m, Front(vs))
InVal(vs) == ValOf([v \in 1..Cases[c].nv |-> IF v \in { Cases[c].order[j] : j \in 1..Len(Cases[c].order) }
                                               THEN (IF BitOf(v) = 1 THEN 1 ELSE -1) ELSE 0], vs)
PopCount == Cardinality({ j \in 1..Len(bits) : bits[j] = 1 })

\* C10: the three relations of cardinality requests
Rel(kind, n, k) == CASE kind = "EQ" -> n = k [] kind = "LT" -> n < k [] kind = "GT" -> n > k

\* C12: a sum written on m output bits by circuits that saturate at s bits: the top bit is sticky
SatVal(v, s, m) == IF s > 0 /\ m = s /\ v >= Pow2(s - 1) THEN Pow2(s - 1) + (v % Pow2(s - 1)) ELSE v

\* C11: formulas as trees [t, xs, p, q, v]
RECURSIVE Eval(_, _)
Eval(f, val) ==
    CASE f.t = "lit" -> IF f.v > 0 THEN val[f.v] ELSE ~val[-f.v]
      [] f.t = "and" -> \A j \in 1..Len(f.xs) : Eval(f.xs[j], val)
      [] f.t = "or"  -> \E j \in 1..Len(f.xs) : Eval(f.xs[j], val)
      [] f.t = "not" -> ~Eval(f.p, val)
      [] f.t = "if"  -> Eval(f.p, val) => Eval(f.q, val)
      [] f.t = "iff" -> Eval(f.p, val) <=> Eval(f.q, val)

Judge ==
    LET cs == Cases[c]
        a == Start(cs)
        n == Count(cs.clauses, Occ[c], a, 3)
    IN
    CASE cs.kind = "card" ->
           LET val(v) == BitOf(v) = 1
               reqsOK == \A r \in 1..Len(cs.reqs) :
                            Rel(cs.reqs[r].rel,
                                Cardinality({ j \in 1..Len(cs.reqs[r].vars) : val(cs.reqs[r].vars[j]) }),
                                cs.reqs[r].k)
               initOK == \A k \in 1..Len(cs.initial) :
                            \E j \in 1..Len(cs.initial[k]) :
                               LET l == cs.initial[k][j] IN IF l > 0 THEN val(l) ELSE ~val(-l)
               want == IF reqsOK /\ initOK THEN 1 ELSE 0 IN
           IF n = want THEN "ok" ELSE IF n > want THEN "too many extensions" ELSE "no extension"
      [] cs.kind = "circuit" ->
           IF n # 1 THEN (IF n = 0 THEN "no extension" ELSE "output not determined")
           ELSE LET m == AModel(cs.clauses, Occ[c], a)
                    x == InVal(cs.xs) + InVal(cs.ys) + InVal(cs.cin)
                    want == IF cs.gate = "popcount" THEN SatVal(PopCount, cs.sat, Len(cs.outs))
                            ELSE SatVal(x, cs.sat, Len(cs.outs))
                IN IF ValOf(m, cs.outs) = want THEN "ok" ELSE "wrong sum"
      [] cs.kind = "formula" ->
           LET val == [v \in 1..cs.nv |-> v \in { cs.order[j] : j \in 1..Len(cs.order) } /\ BitOf(v) = 1]
               ev == Eval(cs.ast, val)
           IN CASE cs.method = "tseitin" ->
                     IF ev /\ n = 1 THEN "ok" ELSE IF ~ev /\ n = 0 THEN "ok"
                     ELSE IF ev /\ n = 0 THEN "model lost" ELSE IF ~ev THEN "non-model accepted" ELSE "new variable not determined"
                [] cs.method = "naive" ->
                     IF ev /\ n = 1 THEN "ok" ELSE IF ~ev /\ n = 0 THEN "ok"
                     ELSE IF ev THEN "model lost" ELSE "non-model accepted"
                [] cs.method = "switching" ->
                     IF ev /\ n >= 1 THEN "ok" ELSE IF ~ev /\ n = 0 THEN "ok"
                     ELSE IF ev THEN "model lost" ELSE "non-model accepted"

\* structural side conditions, judged once per case (at the empty assignment)
Structure ==
    LET cs == Cases[c]
        orig == { cs.order[j] : j \in 1..Len(cs.order) }
        new == VarsOf(cs.clauses) \ orig
    IN CASE cs.kind = "formula" /\ cs.method = "naive" ->
              IF new = {} /\ cs.fresh_out = cs.fresh_in THEN "ok" ELSE "naive conversion introduced variables"
         [] cs.kind = "formula" ->
              IF new \subseteq (cs.fresh_in..(cs.fresh_out - 1)) THEN "ok" ELSE "variable outside the reported fresh range"
         [] OTHER -> "ok"

BitsInt == ValOf([j \in 1..Len(bits) |-> bits[j]], [j \in 1..Len(bits) |-> j])

Report == /\ (bits = <<>> /\ Structure # "ok") => PrintT(<<"BAD", c, -1, Structure>>)
          /\ (Len(bits) = Len(Cases[c].order) /\ Judge # "ok") => PrintT(<<"BAD", c, BitsInt, Judge>>)
=============================================================================
