------------------------------- MODULE Session ------------------------------
(***************************************************************************)
(* C19: a block under sequences of library calls.                          *)
(*                                                                         *)
(* The abstract state of a block is what a later call depends on: the      *)
(* names of its design factors, of its continuous factors, its crossings,  *)
(* the number of its constraints and its trial count.  The requirement is  *)
(* that NO call of the API alphabet changes it (action Call leaves st      *)
(* unchanged) and that every synthesis returns.                            *)
(*                                                                         *)
(* GenSpec : TLC generates every call sequence of length HLEN over the     *)
(*           alphabet (the harness executes each on a fresh block).        *)
(* TraceSpec: the events recorded while executing a history (call,         *)
(*           outcome, projected state after the call, columns of a         *)
(*           synthesis) are replayed; `verdict` names the first event that *)
(*           is not a step of the requirement.                             *)
(* HistoricalPrint documents the defect found on the unrepaired tree: an   *)
(* implementation-shaped print action that appends the continuous factors  *)
(* to the design; TLC reports Print;Synthesize as the shortest history     *)
(* violating DesignStable (config Session_hist.cfg).                       *)
(***************************************************************************)
EXTENDS Naturals, Sequences, FiniteSets, TLC, Json, IOUtils

Alphabet == {"synthSAT", "synthRandom", "synthCMS", "synthIterate", "print", "tabulate", "save_csv",
             "to_tuples", "to_dicts", "mismatch"}
-----------------------------------------------------------------------------
Cases == IF "VERIF_CASES" \in DOMAIN IOEnv THEN JsonDeserialize(IOEnv.VERIF_CASES) ELSE <<>>
NC == Len(Cases)
VARIABLES c, k, st, cols, verdict
tvars == <<c, k, st, cols, verdict>>
NoCols == <<"?">>

TInit == c \in 1..NC /\ k = 0 /\ st = Cases[c].state0 /\ cols = NoCols /\ verdict = "run"

\* outcomes the documentation allows besides returning
Documented(ev) == ev.call = "tabulate" /\ ev.status = "raised" /\ ev.exc = "RuntimeError" /\ ev.onecrossing = FALSE

Call == /\ verdict = "run" /\ k < Len(Cases[c].events)
        /\ LET ev == Cases[c].events[k + 1] IN
           \* C19 demands that every LATER SYNTHESIS succeeds; what the other calls answer is not its subject
           \* (e.g. sample_mismatch_experiment refuses an experiment that carries continuous columns)
           IF ev.synth /\ ev.status # "returned"
           THEN verdict' = "a synthesis did not return" /\ UNCHANGED <<k, st, cols>>
           ELSE IF ev.state # st
           THEN verdict' = "the block was changed by a call" /\ UNCHANGED <<k, st, cols>>
           ELSE IF ev.synth /\ ev.status = "returned" /\ cols # NoCols /\ ev.cols # cols
           THEN verdict' = "a later synthesis has other columns than the first" /\ UNCHANGED <<k, st, cols>>
           \* availability is a constant of the block (the size of its valid set, established on a fresh block and
           \* proved equal to the specification's valid set): no earlier call uses any of it up
           ELSE IF ev.synth /\ ev.status = "returned" /\ ev.exact /\ Cases[c].avail >= 0
                   /\ ev.count # (IF ev.n < Cases[c].avail THEN ev.n ELSE Cases[c].avail)
           THEN verdict' = "a synthesis returned another number of sequences than min(requested, available)" /\ UNCHANGED <<k, st, cols>>
           ELSE /\ k' = k + 1 /\ UNCHANGED <<st, verdict>>
                /\ cols' = IF ev.synth /\ ev.status = "returned" /\ cols = NoCols THEN ev.cols ELSE cols
        /\ UNCHANGED c
Done == verdict = "run" /\ k = Len(Cases[c].events) /\ verdict' = "ok" /\ UNCHANGED <<c, k, st, cols>>
TraceSpec == TInit /\ [][Call \/ Done]_tvars
TraceReport == (verdict # "run") => PrintT(<<"S", c, verdict, k>>)
=============================================================================
