------------------------------- MODULE MCEnum -------------------------------
(***************************************************************************)
(* Enumerate mode (specification -> code).  TLC explores EVERY behaviour   *)
(* of the Design generator for every case of the batch; whenever a         *)
(* complete behaviour is accepted (Valid) but is not among the sequences   *)
(* the implementation returned when exhausted, a MISSING record is         *)
(* printed.  Verdicts are data (PrintT from an always-true invariant) so   *)
(* that one discrepancy does not hide the others.                          *)
(***************************************************************************)
EXTENDS Design, Json, IOUtils

Cases == JsonDeserialize(IOEnv.VERIF_CASES)
NC == Len(Cases)
\* per-case normal forms, computed once by MCNorm (phase 0) and read back as constants
\* (kept in a TLC register: TLC re-evaluates IODeserialize at every mention otherwise)
ASSUME TLCSet(1, IODeserialize(IOEnv.VERIF_NORM, FALSE))
Pre == TLCGet(1)
FN == Pre[1]
NB == Pre[2]
CH == Pre[3]
ASSUME TLCSet(2, TLCEval([d \in 1..NC |-> TLCEval({ Cases[d].impl[k] : k \in 1..Len(Cases[d].impl) })]))
ImplSet == TLCGet(2)
Prune == IOEnv.VERIF_PRUNE # "0"

VARIABLES c, seq
vars == <<c, seq>>

Init == /\ c \in { d \in 1..NC : Cases[d].enum /\ NB[d].ok /\ ~NB[d].unsat }
        /\ seq = <<>>

\* the one action of the generator: append a trial.  The candidate successors are built as a set so
\* that TLC computes every completed trial (Fill) exactly once.
Successors == { Append(seq, Fill(FN[c], NB[c], seq, ch, Len(seq), 1)) : ch \in CH[c] }

Trial(s2) == /\ Prune => PrefixOK(FN[c], NB[c], s2)
             /\ seq' = s2

Next == /\ Len(seq) < NB[c].T
        /\ \E s2 \in Successors : Trial(s2)
        /\ UNCHANGED c

Spec == Init /\ [][Next]_vars

Accepted == Len(seq) = NB[c].T /\ Valid(FN[c], NB[c], seq)

\* always true; prints one record per accepted sequence the implementation cannot produce
Report == (Accepted /\ seq \notin ImplSet[c]) => PrintT(<<"MISSING", c, seq>>)

\* soundness of the pruning rule, checked with VERIF_PRUNE=0: a valid sequence has only viable prefixes
PruneSound == Accepted => \A n \in 1..Len(seq) : PrefixOK(FN[c], NB[c], SubSeq(seq, 1, n))

\* simulation mode (large designs): every accepted behaviour reached by a random walk is printed; the harness asks the
\* implementation whether its compiled formula accepts exactly that sequence (is_cnf_still_sat with the sequence pinned)
ReportValid == Accepted => PrintT(<<"SIM", c, seq>>)

Depth == TLCGet("level") <= 60
=============================================================================
