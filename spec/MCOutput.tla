------------------------------ MODULE MCOutput ------------------------------
(***************************************************************************)
(* C20 / C21: recorded results of experiments_to_tuples, experiments_to_    *)
(* dicts, save_experiments_csv and the captured output of                  *)
(* tabulate_experiments are judged against Output.tla.                     *)
(***************************************************************************)
EXTENDS Output, Json, IOUtils

Cases == JsonDeserialize(IOEnv.VERIF_CASES)
NC == Len(Cases)
VARIABLES c, ph
vars == <<c, ph>>
Init == c \in 1..NC /\ ph = "load"
Next == ph = "load" /\ ph' = "judge" /\ UNCHANGED c
Spec == Init /\ [][Next]_vars

Str(s) == s        \* level names arrive as strings; CSV cells are compared through their bytes (field `b`)

JudgeConv ==
    LET cs == Cases[c] IN
    IF Len(cs.tuples) # Len(cs.exps) \/ Len(cs.dicts) # Len(cs.exps) THEN "number of experiments changed"
    ELSE IF \E e \in 1..Len(cs.exps) : cs.tuples[e] # TuplesOf(cs.exps[e], cs.order) THEN "experiments_to_tuples differs"
    ELSE IF \E e \in 1..Len(cs.exps) : cs.dicts[e] # DictsOf(cs.exps[e], cs.order) THEN "experiments_to_dicts differs"
    ELSE IF Len(cs.csv) # Len(cs.exps) THEN "number of csv files differs"
    ELSE IF \E e \in 1..Len(cs.exps) :
              LET rows == CsvRows(cs.csv[e])
                  T == Len(cs.exps[e][cs.order[1]])
              IN \/ Len(rows) # T + 1
                 \/ rows[1] # [k \in 1..Len(cs.order) |-> cs.bytes[cs.order[k]]]
                 \/ \E t \in 1..T : rows[t + 1] # [k \in 1..Len(cs.order) |-> cs.bytes[cs.exps[e][cs.order[k]][t]]]
         THEN "csv file differs"
    ELSE IF cs.exposed # <<>> THEN "internal factor exposed"
    ELSE "ok"

JudgeTab ==
    LET cs == Cases[c]
        ls == SelectSeq(Lines(cs.stdout), LAMBDA ln : Strip(ln) # <<>>)
        combos == Combos([j \in 1..Len(cs.names) |-> cs.levels[j]])
        nrow == Len(combos)
        ntr == Len(cs.trials)
    IN IF Len(ls) # Len(cs.exps) * (nrow + 1) THEN "number of printed lines"
       ELSE IF \E e \in 1..Len(cs.exps), r \in 1..nrow :
                 LET cells == Cells(ls[(e - 1) * (nrow + 1) + 1 + r])
                     cb == combos[r]
                     f == Freq(cs.exps[e], cs.names, cs.trials, cb)
                 IN \/ Len(cells) # Len(cs.names) + 2
                    \/ \E j \in 1..Len(cs.names) : cells[j] # <<cs.bytes[cs.names[j]], cs.bytes[cb[j]]>>
                    \/ Len(cells[Len(cs.names) + 1]) # 2 \/ ~IsInt(cells[Len(cs.names) + 1][2])
                    \/ ToInt(cells[Len(cs.names) + 1][2]) # f
                    \/ Len(cells[Len(cs.names) + 2]) # 2
                    \/ LET p == cells[Len(cs.names) + 2][2]
                           got == Scaled4(SubSeq(p, 1, Len(p) - 1))
                           want == (f * 1000000) \div ntr
                       IN Last(p) # 37 \/ got - want > 1 \/ want - got > 1
            THEN "a table row differs from the counts"
       ELSE "ok"

\* print_experiments (beyond the listed properties): "<n> trial sequences found.", then per experiment "Experiment i:"
\* and one line per trial listing "name value" for every user-declared factor in design order ('' prints as the bare name)
JudgePrint ==
    LET cs == Cases[c]
        ls == SelectSeq(Lines(cs.stdout), LAMBDA ln : Strip(ln) # <<>>)
        NE == Len(cs.exps)
        TL(e) == Len(cs.exps[e][cs.order[1]])
        RECURSIVE Off(_)
        Off(e) == IF e = 1 THEN 1 ELSE Off(e - 1) + 1 + TL(e - 1)       \* line index before "Experiment e-1:" header
        ExpCell(n, v) == IF cs.bytes[v] = <<>> THEN <<cs.bytes[n]>> ELSE <<cs.bytes[n], cs.bytes[v]>>
    IN IF Len(ls) = 0 \/ Tokens(ls[1])[1] # cs.bytes[cs.count] THEN "first line does not give the number of sequences"
       ELSE IF Len(ls) # (IF NE = 0 THEN 1 ELSE Off(NE) + 1 + TL(NE)) THEN "number of printed lines"
       ELSE IF \E e \in 1..NE : Tokens(ls[Off(e) + 1]) # <<cs.bytes["Experiment"], cs.bytes[cs.idx[e]]>> THEN "experiment header"
       ELSE IF \E e \in 1..NE : \E t \in 1..TL(e) :
                 Cells(ls[Off(e) + 1 + t]) # [k \in 1..Len(cs.order) |-> ExpCell(cs.order[k], cs.exps[e][cs.order[k]][t])]
            THEN "a printed trial differs from the experiment"
       ELSE "ok"

Judge == IF Cases[c].kind = "conv" THEN JudgeConv ELSE IF Cases[c].kind = "print" THEN JudgePrint ELSE JudgeTab
Report == (ph = "judge" /\ Judge # "ok") => PrintT(<<"OUT", c, Judge>>)
=============================================================================
