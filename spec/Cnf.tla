-------------------------------- MODULE Cnf ---------------------------------
(***************************************************************************)
(* Propositional clause sets and a DPLL search with unit propagation,      *)
(* written so that TLC itself enumerates / counts the models of the        *)
(* formulas SweetPea compiles.                                             *)
(*                                                                         *)
(* A problem is [nv, clauses, order]: variables 1..nv, clauses as          *)
(* sequences of non-zero integers, and `order` = the variables that are    *)
(* decided by the state machine (gadget inputs, or the trial-sequence      *)
(* variables of a design).  State = partial assignment after unit          *)
(* propagation (<<>> = conflict).  The variables not in `order` are        *)
(* handled by the recursive counter Count: for SweetPea's functional       *)
(* gadgets propagation alone fixes them, so Count is almost always a       *)
(* single step, but it is a complete search and therefore also counts      *)
(* the extra models of an under-constrained auxiliary variable (C03).      *)
(***************************************************************************)
EXTENDS Naturals, Integers, Sequences, FiniteSets, TLC

Abs(x) == IF x < 0 THEN -x ELSE x
Sgn(x) == IF x < 0 THEN -1 ELSE 1

\* occurrence lists of a clause sequence: for each variable, the indices of the clauses mentioning it
OccOf(nv, cls) == [v \in 1..nv |-> { k \in 1..Len(cls) : \E j \in 1..Len(cls[k]) : Abs(cls[k][j]) = v }]

LitVal(a, l) == a[Abs(l)] * Sgn(l)                 \* 1 true, -1 false, 0 unassigned
SatCl(a, cl) == \E j \in 1..Len(cl) : LitVal(a, cl[j]) = 1
Open(a, cl) == { j \in 1..Len(cl) : LitVal(a, cl[j]) = 0 }
Conflict(a, cl) == ~SatCl(a, cl) /\ Open(a, cl) = {}
Unit(a, cl) == ~SatCl(a, cl) /\ Cardinality(Open(a, cl)) = 1

\* unit propagation from the queue q of just-assigned variables; <<>> on conflict
RECURSIVE Prop(_, _, _, _)
Prop(cls, occ, a, q) ==
    IF q = <<>> THEN a
    ELSE LET v == Head(q)
             ks == occ[v]
         IN IF \E k \in ks : Conflict(a, cls[k]) THEN <<>>
            ELSE LET units == { k \in ks : Unit(a, cls[k]) } IN
                 IF units = {} THEN Prop(cls, occ, a, Tail(q))
                 ELSE LET k == CHOOSE k \in units : TRUE
                          j == CHOOSE j \in Open(a, cls[k]) : TRUE
                          l == cls[k][j]
                      IN Prop(cls, occ, [a EXCEPT ![Abs(l)] = Sgn(l)], Append(q, Abs(l)))

Assign(cls, occ, a, v, b) == Prop(cls, occ, [a EXCEPT ![v] = b], <<v>>)

\* initial assignment: all unit clauses propagated; an empty clause is a conflict
RECURSIVE InitFrom(_, _, _, _)
InitFrom(cls, occ, a, k) ==
    IF a = <<>> \/ k > Len(cls) THEN a
    ELSE IF Len(cls[k]) = 0 THEN <<>>
    ELSE IF Len(cls[k]) = 1 THEN
            LET l == cls[k][1] IN
            IF LitVal(a, l) = -1 THEN <<>>
            ELSE IF LitVal(a, l) = 1 THEN InitFrom(cls, occ, a, k + 1)
            ELSE InitFrom(cls, occ, Assign(cls, occ, a, Abs(l), Sgn(l)), k + 1)
    ELSE InitFrom(cls, occ, a, k + 1)
InitAsg(nv, cls, occ) == InitFrom(cls, occ, [v \in 1..nv |-> 0], 1)

Complete(a) == a # <<>> /\ \A v \in 1..Len(a) : a[v] # 0
AllSat(cls, a) == \A k \in 1..Len(cls) : SatCl(a, cls[k])

\* number of models extending a (complete DPLL; capped at `cap` to keep broken formulas cheap)
RECURSIVE Count(_, _, _, _)
Count(cls, occ, a, cap) ==
    IF a = <<>> THEN 0
    ELSE LET free == { v \in 1..Len(a) : a[v] = 0 } IN
         IF free = {} THEN (IF AllSat(cls, a) THEN 1 ELSE 0)
         ELSE LET v == CHOOSE v \in free : \A u \in free : v <= u
                  n1 == Count(cls, occ, Assign(cls, occ, a, v, 1), cap)
              IN IF n1 >= cap THEN n1
                 ELSE n1 + Count(cls, occ, Assign(cls, occ, a, v, -1), cap - n1)

\* one model extending a (only used where Count = 1)
RECURSIVE AModel(_, _, _)
AModel(cls, occ, a) ==
    IF a = <<>> THEN <<>>
    ELSE LET free == { v \in 1..Len(a) : a[v] = 0 } IN
         IF free = {} THEN (IF AllSat(cls, a) THEN a ELSE <<>>)
         ELSE LET v == CHOOSE v \in free : \A u \in free : v <= u
                  m1 == AModel(cls, occ, Assign(cls, occ, a, v, 1))
              IN IF m1 # <<>> THEN m1 ELSE AModel(cls, occ, Assign(cls, occ, a, v, -1))

\* variables a clause set mentions
VarsOf(cls) == UNION { { Abs(cls[k][j]) : j \in 1..Len(cls[k]) } : k \in 1..Len(cls) }
MaxVar(cls) == IF VarsOf(cls) = {} THEN 0 ELSE CHOOSE m \in VarsOf(cls) : \A v \in VarsOf(cls) : v <= m

=============================================================================
