SPECIFICATION Spec
INVARIANT PruneSound
CONSTRAINT Depth
CHECK_DEADLOCK FALSE
