------------------------------- MODULE Blocks -------------------------------
(***************************************************************************)
(* Documented arithmetic of SweetPea's block constructors.                 *)
(*                                                                         *)
(* A *case* is a record [factors, block] (see DESIGN.md section 3).  The   *)
(* operator Norm(F, b) turns the block tree b into a flat *normal block*   *)
(* record NB that Design.tla gives a meaning to:                           *)
(*                                                                         *)
(*   ok, err      construction accepted / reason for refusal               *)
(*   design       factor ids of the design, in order                       *)
(*   X            crossings: [fs, su (sustain), w (crossing weight)]       *)
(*   K            constraints, each with the geometry [gn, gp, gu, gx] of  *)
(*                the block it was given to (gn trials, gp preamble, gu    *)
(*                sustain multiplier, gx crossed factors of that block)    *)
(*   T            trial count;  gp  preamble that a constraint given to    *)
(*                this very block sees                                     *)
(*                                                                         *)
(* Rules R1 .. R11 are the numbered rules of DESIGN.md section 2.3.        *)
(* MultiCrossBlock, Repeat and CrossBlock are DEFINED through Merge, as    *)
(* the API documentation states them (R7); the implementation builds them  *)
(* through different code paths, which is what C24 compares.               *)
(***************************************************************************)
EXTENDS Naturals, Integers, Sequences, FiniteSets, TLC, SequencesExt, FiniteSetsExt, Functions

Max2(a, b) == IF a > b THEN a ELSE b
Min2(a, b) == IF a < b THEN a ELSE b
RECURSIVE SumSeq(_)
SumSeq(s) == IF s = <<>> THEN 0 ELSE Head(s) + SumSeq(Tail(s))
RECURSIVE ProdSeq(_)
ProdSeq(s) == IF s = <<>> THEN 1 ELSE Head(s) * ProdSeq(Tail(s))
MaxSeq(s) == FoldSeq(Max2, 0, s)
CeilDiv(a, b) == (a + b - 1) \div b
RangeS(s) == { s[i] : i \in 1..Len(s) }
RECURSIVE FlatSeq(_)
FlatSeq(ss) == IF ss = <<>> THEN <<>> ELSE Head(ss) \o FlatSeq(Tail(ss))
\* order-preserving union of sequences of ids
RECURSIVE UnionSeq(_, _)
UnionSeq(a, b) == IF b = <<>> THEN a
                  ELSE IF Head(b) \in RangeS(a) THEN UnionSeq(a, Tail(b))
                  ELSE UnionSeq(Append(a, Head(b)), Tail(b))

-----------------------------------------------------------------------------
(* Factors *)

WSum(f) == SumSeq(f.w)

RECURSIVE RComplex(_, _)
\* "complex window": needs more than the current trial, or starts late (R4)
RComplex(F0, i) == LET f == F0[i] IN
    /\ f.kind = "d"
    /\ \/ f.width > 1 \/ f.stride > 1 \/ f.start > 0
       \/ (Len(f.deps) > 0 /\ RComplex(F0, f.deps[1]))

RReadyAt(F0, g) == IF RComplex(F0, g) THEN F0[g].start ELSE 0

\* position p of a window tuple: dependency number and offset (0 = oldest)
WDep(f, p) == ((p - 1) \div f.width) + 1
WOff(f, p) == (p - 1) % f.width

\* all sequences d with d[i] \in D[i]
RECURSIVE ProdFn(_)
ProdFn(D) == IF D = <<>> THEN { <<>> }
             ELSE { Append(p, v) : p \in ProdFn(SubSeq(D, 1, Len(D) - 1)), v \in D[Len(D)] }

\* R4a: the window domain a derived factor must cover exactly once.  None (0) is part of
\* the domain at a position iff it can be undefined at the factor's first trial.
RDomain(F0, i) == LET f == F0[i]  n == Len(f.deps) * f.width IN
    ProdFn([p \in 1..n |-> LET g == f.deps[WDep(f, p)] IN
              (1..F0[g].nl) \cup (IF RReadyAt(F0, g) > f.start - f.width + WOff(f, p) + 1 THEN {0} ELSE {})])

AccGiven(f, l) == { f.acc[l][k] : k \in 1..Len(f.acc[l]) }
RAccSet(F0, i, l) == LET f == F0[i] IN
    IF f.else = l
    THEN RDomain(F0, i) \ UNION { AccGiven(f, m) : m \in (1..f.nl) \ {l} }
    ELSE AccGiven(f, l)

\* Factors are normalised once per case: accept sets (accs), window domain (dom), complexity (cx)
NormFactors(F0) == TLCEval([i \in 1..Len(F0) |->
    F0[i] @@ [cx   |-> RComplex(F0, i),
              dom  |-> IF F0[i].kind = "d" THEN TLCEval(RDomain(F0, i)) ELSE {},
              accs |-> IF F0[i].kind = "d" THEN TLCEval([l \in 1..F0[i].nl |-> TLCEval(RAccSet(F0, i, l))]) ELSE <<>>]])

Complex(F, i) == F[i].cx
Domain(F, i) == F[i].dom
AccSet(F, i, l) == F[i].accs[l]
ReadyAt(F, g) == IF Complex(F, g) THEN F[g].start ELSE 0

\* earliest trial where the whole window of every dependency is defined
DefaultStart(F, i) == LET f == F[i] IN
    MaxSeq([j \in 1..Len(f.deps) |-> ReadyAt(F, f.deps[j]) + f.width - 1])

\* C15: two levels accept the same window -> construction is refused
Ambiguous(F, i) == \E l, m \in 1..F[i].nl : l # m /\ AccSet(F, i, l) \cap AccSet(F, i, m) \cap Domain(F, i) # {}
\* C15: some window matches no level -> synthesis reports an error and returns nothing
Partial(F, i) == \E tp \in Domain(F, i) : \A l \in 1..F[i].nl : tp \notin AccSet(F, i, l)

-----------------------------------------------------------------------------
(* Constraints (records come from JSON with all fields present) *)

NoGeom == [has |-> FALSE, gn |-> 0, gp |-> 0, gu |-> 1, gx |-> {}]
WithGeom(k, g) == [c |-> k.c, f |-> k.f, l |-> k.l, k |-> k.k, i |-> k.i, fs |-> k.fs, g |-> g]
Fresh(ks) == TLCEval([j \in 1..Len(ks) |-> WithGeom(ks[j], NoGeom)])

\* whole-factor constraints are one constraint per level (R6)
LevelsOf(F, k) == IF k.l = 0 THEN 1..F[k.f].nl ELSE {k.l}

Excluded(K) == { <<K[j].f, K[j].l>> : j \in { j \in 1..Len(K) : K[j].c = "Exclude" } }

-----------------------------------------------------------------------------
(* Crossing arithmetic *)

Combos(F, fs) == ProdFn([j \in 1..Len(fs) |-> 1..F[fs[j]].nl])
CombW(F, fs, cb) == ProdSeq([j \in 1..Len(fs) |-> F[fs[j]].w[cb[j]]])

\* the within-trial part of the design: factors whose level is a function of the same trial
Simple(F, design) == { i \in RangeS(design) : ~Complex(F, i) }

RECURSIVE FillSimple(_, _, _, _)
\* complete an assignment of the basic factors to all simple factors (0 = no unique level)
FillSimple(F, S, tr, i) ==
    IF i > Len(F) THEN tr
    ELSE IF i \notin S \/ F[i].kind = "b" THEN FillSimple(F, S, tr, i + 1)
    ELSE LET f == F[i]
             tp == [p \in 1..Len(f.deps) |-> tr[f.deps[p]]]
             ls == { l \in 1..f.nl : tp \in AccSet(F, i, l) }
         IN FillSimple(F, S, [tr EXCEPT ![i] = IF Cardinality(ls) = 1 THEN CHOOSE l \in ls : TRUE ELSE 0], i + 1)

\* all single trials the simple part of the design allows (derivations hold, nothing excluded)
SimpleTrials(F, design, K) ==
    LET S == Simple(F, design)
        \* basic factors the simple derived factors depend on are in the design (library requirement)
        B == { i \in 1..Len(F) : F[i].kind = "b" /\ i \in S }
        base == ProdFn([i \in 1..Len(F) |-> IF i \in B THEN 1..F[i].nl ELSE {0}])
        filled == { FillSimple(F, S, tr, 1) : tr \in base }
    IN { tr \in filled : \* (a simple factor without a unique level has 0 here: that is an error of the design - Partial /
                         \*  Ambiguous - and does not shrink a crossing it is not part of)
                         \* READING-1 (code; the documentation only speaks of excluded levels of crossed
                         \* factors and of derived levels): an excluded level of a non-derived factor
                         \* outside the crossing does not make a combination infeasible
                         /\ \A i \in S : F[i].kind = "d" => <<i, tr[i]>> \notin Excluded(K) }

\* R1a: a combination is feasible iff none of its levels is excluded and some single trial shows it
\* (levels of complex-window factors are never counted infeasible)
Feasible(F, design, K, fs, cb) ==
    /\ \A j \in 1..Len(fs) : <<fs[j], cb[j]>> \notin Excluded(K)
    /\ \E tr \in SimpleTrials(F, design, K) :
          \A j \in 1..Len(fs) : Complex(F, fs[j]) \/ tr[fs[j]] = cb[j]

FeasibleCombos(F, design, K, fs) == { cb \in Combos(F, fs) : Feasible(F, design, K, fs, cb) }

\* R1: weighted size of a crossing (in trials, sustain included), from its feasible combinations
RECURSIVE SumW(_, _, _)
SumW(F, fs, S) == IF S = {} THEN 0
                  ELSE LET cb == CHOOSE cb \in S : TRUE IN CombW(F, fs, cb) + SumW(F, fs, S \ {cb})

\* R2: preamble of a crossing: latest start among its derived factors (times the sustain)
XPre(F, x) == MaxSeq([j \in 1..Len(x.fs) |-> IF F[x.fs[j]].kind = "d" THEN F[x.fs[j]].start * x.su ELSE 0])

-----------------------------------------------------------------------------
(* The common constructor (all public constructors are defined through it) *)

MinTrialsOf(K) == MaxSeq([j \in 1..Len(K) |-> IF K[j].c = "MinimumTrials" THEN K[j].k ELSE 0])

RECURSIVE RoundUpAll(_, _)
RoundUpAll(m, sus) == IF sus = <<>> THEN m
                      ELSE RoundUpAll(CeilDiv(m, Head(sus)) * Head(sus), Tail(sus))

Refused(why) == [ok |-> FALSE, err |-> why]

Create(F, design, Xs0, K0, rcc, mode, align) ==
    LET Xs    == SelectSeq(Xs0, LAMBDA x : Len(x.fs) > 0)
        nx    == Len(Xs)
        fcs   == TLCEval([i \in 1..nx |-> TLCEval(FeasibleCombos(F, design, K0, Xs[i].fs))])
        sizes == TLCEval([i \in 1..nx |-> SumW(F, Xs[i].fs, fcs[i]) * Xs[i].su])
        pres  == TLCEval([i \in 1..nx |-> XPre(F, Xs[i])])
        minT  == RoundUpAll(MinTrialsOf(K0), [i \in 1..nx |-> Xs[i].su])
        \* R5a (code): the unified preamble under POST_PREAMBLE also counts uncrossed complex factors
        apre  == MaxSeq([j \in 1..Len(design) |-> IF Complex(F, design[j]) THEN F[design[j]].start ELSE 0])
        upre  == Max2(apre, MaxSeq(pres))
        need  == IF align = "post" THEN (IF nx = 0 THEN 0 ELSE MaxSeq(pres) + MaxSeq(sizes))
                 ELSE MaxSeq([i \in 1..nx |-> pres[i] + sizes[i]])
        T     == Max2(Max2(minT, need), 1)
        \* R3: crossing weight
        wOf(i) == IF sizes[i] = 0 THEN Xs[i].w
                  ELSE CeilDiv(Max2((T \div Xs[i].su) - pres[i], 0), sizes[i])
        ws    == [i \in 1..nx |-> IF mode = "repeat" THEN Xs[i].w ELSE wOf(i)]
        starts == [i \in 1..nx |-> IF align = "post" THEN upre ELSE pres[i]]
        gp    == IF nx = 0 THEN 0 ELSE starts[1]
        gx    == UNION { RangeS(Xs[i].fs) : i \in 1..nx }
        geom  == [has |-> TRUE, gn |-> T, gp |-> gp, gu |-> 1, gx |-> gx]
        K     == TLCEval([j \in 1..Len(K0) |-> IF K0[j].g.has THEN K0[j] ELSE [K0[j] EXCEPT !.g = geom]])
        X     == TLCEval([i \in 1..nx |-> [fs |-> Xs[i].fs, su |-> Xs[i].su, w |-> ws[i],
                                   size |-> sizes[i], pre |-> pres[i], start |-> starts[i],
                                   allowed |-> fcs[i]]])
        incomplete == \E i \in 1..nx : fcs[i] # Combos(F, Xs[i].fs)
        derived == { i \in RangeS(design) : F[i].kind = "d" }
    IN
    IF \E i \in derived : Ambiguous(F, i) THEN Refused("ambiguous derivation")
    ELSE IF align = "equal" /\ \E i \in 1..nx : pres[i] # pres[1] THEN Refused("EQUAL_PREAMBLE")
    ELSE IF mode = "equal" /\ \E i \in 1..nx : ws[i] # Xs[i].w THEN Refused("RepeatMode.EQUAL")
    ELSE [ok |-> TRUE, err |-> "", design |-> design, X |-> X, K |-> K, rcc |-> rcc,
          align |-> align, T |-> T, gp |-> gp,
          \* errors that synthesis reports instead of returning sequences (R1, C15)
          unsat |-> \/ (rcc /\ incomplete)
                    \/ \E i \in derived : Partial(F, i),
          \* a required complete crossing that cannot be complete: the design is an error; the documentation defines
          \* the reduced size only "when complete crossing is not required", so T is not compared for such designs (C16)
          rccerr |-> rcc /\ incomplete]

-----------------------------------------------------------------------------
(* Public constructors *)

X1(fs) == [fs |-> fs, su |-> 1, w |-> 1]
StripX(nb) == [i \in 1..Len(nb.X) |-> [fs |-> nb.X[i].fs, su |-> nb.X[i].su, w |-> nb.X[i].w]]

\* R5: Merge.  Blocks are already normal; their constraints keep their own geometry.
MergeNB(F, nbs, ks, mode, align0) ==
    LET align == IF align0 = "" THEN nbs[1].align ELSE align0 IN
    IF \E i \in 1..Len(nbs) : ~nbs[i].ok THEN Refused("sub-block refused")
    \* a block with a single crossing has no alignment choice of its own and fits any alignment
    ELSE IF \E i \in 1..Len(nbs) : nbs[i].align # align /\ ~(nbs[i].align = "equal" /\ Len(nbs[i].X) <= 1)
         THEN Refused("different alignments")
    ELSE Create(F,
                FoldSeq(LAMBDA nb, acc : UnionSeq(acc, nb.design), <<>>, Reverse(nbs)),
                FlatSeq([i \in 1..Len(nbs) |-> StripX(nbs[i])]),
                Fresh(ks) \o FlatSeq([i \in 1..Len(nbs) |-> nbs[i].K]),
                \A i \in 1..Len(nbs) : nbs[i].rcc,
                mode, align)

\* R8: the outer block's constraints are stretched by the inner length u
Stretch(k, u) == [k EXCEPT !.g = [@ EXCEPT !.gn = @ * u, !.gp = @ * u, !.gu = @ * u],
                           !.k = IF k.c \in {"ExactlyK", "MinimumTrials"} THEN @ * u ELSE @]

NestNB(F, o, n, ks) ==
    IF ~o.ok \/ ~n.ok THEN Refused("sub-block refused")
    ELSE IF \E i \in 1..Len(o.X), j \in 1..Len(n.X) : RangeS(o.X[i].fs) \cap RangeS(n.X[j].fs) # {}
         THEN Refused("factor in both crossings")
    ELSE LET u == n.T - (IF Len(n.X) = 0 THEN 0 ELSE n.X[1].start)
             align == IF o.align = n.align THEN o.align
                      ELSE IF o.align = "equal" /\ Len(o.X) = 1 THEN n.align
                      ELSE IF n.align = "equal" /\ Len(n.X) = 1 THEN o.align
                      ELSE "bad"
         IN IF align = "bad" THEN Refused("different alignments")
            ELSE Create(F, UnionSeq(o.design, n.design),
                        [i \in 1..Len(o.X) |-> [fs |-> o.X[i].fs, su |-> o.X[i].su * u, w |-> o.X[i].w]] \o StripX(n),
                        [j \in 1..Len(o.K) |-> Stretch(o.K[j], u)] \o n.K \o Fresh(ks),
                        o.rcc /\ n.rcc, "repeat", align)

RECURSIVE Norm(_, _)
Norm(F, b) ==
    CASE b.op = "Cross" ->
           \* R7: CrossBlock(d, X, cs) = MultiCrossBlock(d, [X], cs) in WEIGHT mode
           Create(F, b.design, <<X1(b.crossing)>>, Fresh(b.cons), b.rcc, "weight", "equal")
      [] b.op = "Multi" ->
           \* R7: MultiCrossBlock = Merge of one CrossBlock(design, crossing, [], rcc) per crossing
           MergeNB(F, [i \in 1..Len(b.crossings) |->
                          Create(F, b.design, <<X1(b.crossings[i])>>, <<>>, b.rcc, "weight", b.align)],
                   b.cons, b.mode, b.align)
      [] b.op = "Merge" ->
           MergeNB(F, [i \in 1..Len(b.blocks) |-> Norm(F, b.blocks[i])], b.cons, b.mode, b.align)
      [] b.op = "Repeat" ->
           \* R7: Repeat(b, cs) = Merge([b], cs, REPEAT, EQUAL_PREAMBLE)
           MergeNB(F, <<Norm(F, b.block)>>, b.cons, "repeat", "equal")
      [] b.op = "Nest" ->
           NestNB(F, Norm(F, b.outer), Norm(F, b.inner), b.cons)


-----------------------------------------------------------------------------
(* R6: repetition windows [lo, hi) of the block a constraint was given to, clipped to the
   sequence; computed once for the outermost block *)
Windows(nb, k) ==
    LET g == k.g
        step == g.gn - g.gp
        first == IF nb.align = "post" THEN Max2(nb.gp - g.gp, 0) ELSE 0
        lim == nb.T - g.gp
    IN IF step <= 0 THEN { <<first, Min2(first + g.gn, nb.T)>> }
       ELSE { <<first + r * step, Min2(first + r * step + g.gn, nb.T)>> :
                 r \in { r \in 0..nb.T : first + r * step < lim } }

NormTop(F, b) == LET nb == Norm(F, b) IN
    IF ~nb.ok THEN nb
    ELSE [nb EXCEPT !.K = TLCEval([j \in 1..Len(nb.K) |-> nb.K[j] @@ [wins |-> TLCEval(Windows(nb, nb.K[j]))]])]

=============================================================================
