SPECIFICATION Spec
INVARIANT ReportValid
CONSTRAINT Depth
CHECK_DEADLOCK FALSE
