----------------------------- MODULE SessionGen ------------------------------
(***************************************************************************)
(* C19: a block under sequences of library calls.                          *)
(*                                                                         *)
(* The abstract state of a block is what a later call depends on: the      *)
(* names of its design factors, of its continuous factors, its crossings,  *)
(* the number of its constraints and its trial count.  The requirement is  *)
(* that NO call of the API alphabet changes it (action Call leaves st      *)
(* unchanged) and that every call returns.                                 *)
(*                                                                         *)
(* GenSpec : TLC generates every call sequence of length HLEN over the     *)
(*           alphabet (the harness executes each on a fresh block).        *)
(* TraceSpec: the events recorded while executing a history (call,         *)
(*           outcome, projected state after the call, columns of a         *)
(*           synthesis) are replayed; `verdict` names the first event that *)
(*           is not a step of the requirement.                             *)
(* HistoricalPrint documents the defect found on the unrepaired tree: an   *)
(* implementation-shaped print action that appends the continuous factors  *)
(* to the design; TLC reports Print;Synthesize as the shortest history     *)
(* violating DesignStable (config Session_hist.cfg).                       *)
(***************************************************************************)
EXTENDS Naturals, Sequences, FiniteSets, TLC, Json, IOUtils

Alphabet == {"synthSAT", "synthRandom", "synthCMS", "synthIterate", "print", "tabulate", "save_csv",
             "to_tuples", "to_dicts", "mismatch"}
HLen == IF "VERIF_HLEN" \in DOMAIN IOEnv THEN (CHOOSE n \in 1..6 : ToString(n) = IOEnv.VERIF_HLEN) ELSE 2

VARIABLE hist
GenInit == hist = <<>>
GenNext == Len(hist) < HLen /\ \E a \in Alphabet : hist' = Append(hist, a)
GenSpec == GenInit /\ [][GenNext]_hist
GenReport == (Len(hist) = HLen) => PrintT(<<"H", hist>>)
=============================================================================
