------------------------------- MODULE Design -------------------------------
(***************************************************************************)
(* The documented meaning of a SweetPea design, as a trial-by-trial        *)
(* generator.  A behaviour of this specification is a trial sequence:      *)
(* action Trial appends one trial (a free choice of a level for every      *)
(* non-derived factor; derived levels follow from their window), and is    *)
(* enabled only while the prefix can still be completed w.r.t. the         *)
(* prefix-closed part of the rules (PrefixOK).  A complete behaviour is    *)
(* *accepted* iff Valid holds, which is a declarative statement of rules   *)
(* R1-R11 that does not mention PrefixOK (soundness of the pruning is      *)
(* itself model-checked: invariant PruneSound in MCDesign with PRUNE off). *)
(*                                                                         *)
(* A trial is a function  factor id -> level index  (0 = the factor does   *)
(* not apply / is not in the design).  Sequences are 1-based, trials are   *)
(* numbered from 0 as in the documentation: trial t is s[t+1].             *)
(***************************************************************************)
EXTENDS Blocks

-----------------------------------------------------------------------------
(* Derived factors *)

\* sustain of a factor: that of the crossing it is in (R8), else 1
SuOf(nb, f) == LET is == { i \in 1..Len(nb.X) : f \in RangeS(nb.X[i].fs) } IN
               IF is = {} THEN 1 ELSE nb.X[CHOOSE i \in is : TRUE].su

\* R4: does factor i apply at (0-based) trial t
Applies(F, nb, i, t) == LET f == F[i] u == SuOf(nb, i) g == t \div u IN
    IF f.kind = "b" THEN TRUE ELSE g >= f.start /\ (g - f.start) % f.stride = 0

\* value of factor g at trial u of sequence s extended by the partial trial cur at position t
ValAt(F, nb, s, cur, t, g, u) ==
    IF u < 0 THEN 0
    ELSE IF ~Applies(F, nb, g, u) THEN 0
    ELSE IF u = t THEN cur[g] ELSE s[u + 1][g]

\* the window of derived factor i at trial t (sustained factors look back in steps of the sustain)
WinTuple(F, nb, i, s, cur, t) == LET f == F[i] su == SuOf(nb, i) IN
    [p \in 1..(Len(f.deps) * f.width) |->
        ValAt(F, nb, s, cur, t, f.deps[WDep(f, p)], t - (f.width - 1 - WOff(f, p)) * su)]

DerivedLevels(F, nb, i, s, cur, t) ==
    LET tp == WinTuple(F, nb, i, s, cur, t) IN { l \in 1..F[i].nl : tp \in AccSet(F, i, l) }

RECURSIVE Fill(_, _, _, _, _, _)
\* complete the choice of basic levels `cur` to a whole trial; -1 marks "no unique level"
Fill(F, nb, s, cur, t, i) ==
    IF i > Len(F) THEN cur
    ELSE IF i \notin RangeS(nb.design) THEN Fill(F, nb, s, [cur EXCEPT ![i] = 0], t, i + 1)
    ELSE IF F[i].kind = "b" THEN Fill(F, nb, s, cur, t, i + 1)
    ELSE IF ~Applies(F, nb, i, t) THEN Fill(F, nb, s, [cur EXCEPT ![i] = 0], t, i + 1)
    ELSE LET ls == DerivedLevels(F, nb, i, s, cur, t) IN
         Fill(F, nb, s, [cur EXCEPT ![i] = IF Cardinality(ls) = 1 THEN CHOOSE l \in ls : TRUE ELSE -1], t, i + 1)

\* the free choices of one trial: a level for every non-derived factor of the design
TrialChoices(F, nb) == ProdFn([i \in 1..Len(F) |->
    IF F[i].kind = "b" /\ i \in RangeS(nb.design) THEN 1..F[i].nl ELSE {0}])

\* clause "levels": every design factor has one of its levels, '' exactly where it does not apply
LevelsOK(F, nb, tr, t) ==
    \A i \in 1..Len(F) :
        IF i \notin RangeS(nb.design) THEN tr[i] = 0
        ELSE IF Applies(F, nb, i, t) THEN tr[i] \in 1..F[i].nl ELSE tr[i] = 0

\* clause "derived": every applicable derived level is the one its window selects
DerivedOK(F, nb, s, tr, t) ==
    \A i \in RangeS(nb.design) :
        (F[i].kind = "d" /\ Applies(F, nb, i, t)) => DerivedLevels(F, nb, i, s, tr, t) = {tr[i]}

\* clause "sustain" (R8): crossed factors of a sustained crossing are constant on aligned groups
SustainOK(F, nb, s, tr, t) ==
    \A x \in 1..Len(nb.X) : nb.X[x].su > 1 =>
        \A j \in 1..Len(nb.X[x].fs) :
            (t % nb.X[x].su # 0) => tr[nb.X[x].fs[j]] = s[t][nb.X[x].fs[j]]

-----------------------------------------------------------------------------
(* Crossings (R3, R5, R8) *)

CountIn(s, lo, hi, fs, cb) == Cardinality({ u \in lo..hi : \A j \in 1..Len(fs) : s[u][fs[j]] = cb[j] })

\* `final` = the sequence is complete: full chunks exact, trailing partial chunk at most;
\* on a proper prefix every started chunk is "at most".
CrossOK(F, nb, x, s, final) ==
    LET X == nb.X[x]
        S == X.size * X.w                 \* chunk length in trials
        n == Len(s)
        allowed == X.allowed
    IN  IF S = 0 THEN n <= X.start
        ELSE
        /\ \A u \in (X.start + 1)..n :
              [j \in 1..Len(X.fs) |-> s[u][X.fs[j]]] \in allowed
        /\ \A cb \in allowed :
             \A ch \in 0..((Max2(n - X.start, 0)) \div S) :
                LET lo == X.start + ch * S + 1
                    hi == Min2(lo + S - 1, n)
                    q  == CombW(F, X.fs, cb) * X.w * X.su
                    cnt == CountIn(s, lo, hi, X.fs, cb)
                IN IF final /\ hi - lo + 1 = S THEN cnt = q ELSE cnt <= q

-----------------------------------------------------------------------------
(* Constraints (R6, R9, R10) *)

\* maximal runs of level l of factor f inside window [lo, hi) of s (as set of <<first,last>> 0-based)
Runs(s, f, l, lo, hi) ==
    { <<a, b>> \in (lo..(hi - 1)) \X (lo..(hi - 1)) :
        /\ a <= b
        /\ \A u \in a..b : s[u + 1][f] = l
        /\ (a = lo \/ s[a][f] # l)
        /\ (b = hi - 1 \/ s[b + 2][f] # l) }

RunLenOK(kind, k, len) == CASE kind = "AtMostKInARow"  -> len <= k
                            [] kind = "AtLeastKInARow" -> len >= k
                            [] kind = "ExactlyKInARow" -> len = k

\* trials a Pin refers to inside window [lo,hi): index counts groups of the factor's sustain (R8)
PinTrials(k, lo, hi) ==
    LET u == IF k.f \in k.g.gx THEN k.g.gu ELSE 1
        t0 == IF k.i < 0 THEN hi + u * k.i ELSE lo + u * k.i
    IN IF t0 >= lo /\ t0 < hi THEN { t0 + d : d \in 0..(u - 1) } ELSE {}

SeqPre(nb, f) == LET is == { i \in 1..Len(nb.X) : f \in RangeS(nb.X[i].fs) } IN
                 IF is = {} THEN 0 ELSE nb.X[CHOOSE i \in is : TRUE].start

\* LatinSquare (R10): rotation vector after `seg` odometer steps over the non-main factors
LSMain(F, fs) == LET m == MaxSeq([j \in 1..Len(fs) |-> F[fs[j]].nl]) IN
                 CHOOSE j \in 1..Len(fs) : F[fs[j]].nl = m /\ \A j2 \in (j + 1)..Len(fs) : F[fs[j2]].nl # m
RECURSIVE LSStep(_, _, _, _)
LSStep(F, fs, rot, j) ==      \* one odometer step, from the last factor backwards, skipping main
    IF j = 0 THEN rot
    ELSE IF j = LSMain(F, fs) THEN LSStep(F, fs, rot, j - 1)
    ELSE IF rot[j] + 1 < F[fs[j]].nl THEN [rot EXCEPT ![j] = @ + 1]
    ELSE LSStep(F, fs, [rot EXCEPT ![j] = 0], j - 1)
RECURSIVE LSRot(_, _, _)
LSRot(F, fs, seg) == IF seg = 0 THEN [j \in 1..Len(fs) |-> 0]
                     ELSE LSStep(F, fs, LSRot(F, fs, seg - 1), Len(fs))

LatinOK(F, nb, k, s) ==
    LET fs == k.fs
        N == MaxSeq([j \in 1..Len(fs) |-> F[fs[j]].nl])
        m == LSMain(F, fs)
        su == SuOf(nb, fs[1])
        pre == SeqPre(nb, fs[1])
        n == Len(s)
        nseg == IF n <= pre THEN 0 ELSE CeilDiv(n - pre, N * su)
    IN Len(fs) = 1 \/
       \A seg \in 0..(nseg - 1) :
          LET lo == pre + seg * N * su
              rot == LSRot(F, fs, seg)
              ts == { t \in lo..(lo + N - 1) : t < n }
          IN /\ \A t \in ts : \A j \in 1..Len(fs) :
                   \* the main factor's level index (0-based) kk determines the others by rotation
                   LET kk == s[t + 1][fs[m]] - 1 IN
                   s[t + 1][fs[j]] - 1 = (kk + rot[j]) % F[fs[j]].nl
             /\ \A t1, t2 \in ts : t1 # t2 => s[t1 + 1][fs[m]] # s[t2 + 1][fs[m]]

\* one constraint on a COMPLETE sequence
ConOK(F, nb, k, s) ==
    CASE k.c = "MinimumTrials" -> TRUE
      [] k.c = "Exclude" -> \A t \in 1..Len(s) : s[t][k.f] # k.l
      [] k.c = "Pin" ->
           \* READING-2: a repetition window that is too short to contain the index (a clipped last
           \* repetition) pins nothing; the constraint is unsatisfiable only if NO window contains it
           LET ts == UNION { PinTrials(k, w[1], w[2]) : w \in k.wins } IN
           ts # {} /\ \A t \in ts : s[t + 1][k.f] = k.l
      [] k.c \in {"AtMostKInARow", "AtLeastKInARow", "ExactlyKInARow"} ->
           \A l \in LevelsOf(F, k) : \A w \in k.wins :
              \A r \in Runs(s, k.f, l, w[1], w[2]) : RunLenOK(k.c, k.k, r[2] - r[1] + 1)
      [] k.c = "ExactlyK" ->
           \A l \in LevelsOf(F, k) : \A w \in k.wins :
              Cardinality({ t \in w[1]..(w[2] - 1) : s[t + 1][k.f] = l }) = k.k
      [] k.c = "Sequential" ->
           LET su == SuOf(nb, k.f) pre == SeqPre(nb, k.f) IN
           \A t \in pre..(Len(s) - 1) : s[t + 1][k.f] = (((t - pre) \div su) % F[k.f].nl) + 1
      [] k.c = "LatinSquare" -> LatinOK(F, nb, k, s)

\* length of the run of level l of factor f that ends at 1-based position n, not looking below lo+1
RECURSIVE RunBack(_, _, _, _, _)
RunBack(s, f, l, n, lo) == IF n > lo /\ s[n][f] = l THEN 1 + RunBack(s, f, l, n - 1, lo) ELSE 0

\* the prefix-closed part of a constraint, for pruning during generation (n = Len(s) is the new trial)
ConPrefixOK(F, nb, k, s) ==
    LET n == Len(s) IN
    CASE k.c = "Exclude" -> s[n][k.f] # k.l
      [] k.c = "Pin" ->
           \A w \in k.wins :
              LET ts == PinTrials(k, w[1], w[2]) IN
              \A t \in ts : t + 1 = n => s[n][k.f] = k.l
      [] k.c = "AtMostKInARow" ->
           \A l \in LevelsOf(F, k) : s[n][k.f] = l =>
              \A w \in k.wins : (w[1] < n /\ n <= w[2]) => RunBack(s, k.f, l, n, w[1]) <= k.k
      [] k.c \in {"AtLeastKInARow", "ExactlyKInARow"} ->
           \A l \in LevelsOf(F, k) : \A w \in k.wins : (w[1] < n /\ n <= w[2]) =>
              \* a run that has just been closed (by another level, or by the end of the window)
              /\ (n - 1 > w[1] /\ s[n][k.f] # l /\ s[n - 1][k.f] = l) =>
                     RunLenOK(k.c, k.k, RunBack(s, k.f, l, n - 1, w[1]))
              /\ (n = w[2] /\ s[n][k.f] = l) => RunLenOK(k.c, k.k, RunBack(s, k.f, l, n, w[1]))
              /\ (k.c = "ExactlyKInARow" /\ s[n][k.f] = l) => RunBack(s, k.f, l, n, w[1]) <= k.k
      [] k.c = "ExactlyK" ->
           \A l \in LevelsOf(F, k) : \A w \in k.wins :
              LET cnt == Cardinality({ t \in w[1]..(Min2(w[2], n) - 1) : s[t + 1][k.f] = l }) IN
              /\ cnt <= k.k
              /\ n >= w[2] => cnt = k.k
      [] k.c = "Sequential" ->
           LET su == SuOf(nb, k.f) pre == SeqPre(nb, k.f) t == n - 1 IN
           t >= pre => s[n][k.f] = (((t - pre) \div su) % F[k.f].nl) + 1
      [] OTHER -> TRUE

\* the prefix-closed part of a crossing: the new trial's combination is allowed and its chunk quota is not exceeded
CrossPrefixOK(F, nb, x, s) ==
    LET X == nb.X[x]  S == X.size * X.w  n == Len(s)  t == n - 1 IN
    IF t < X.start THEN TRUE
    ELSE IF S = 0 THEN FALSE
    ELSE LET cb == [j \in 1..Len(X.fs) |-> s[n][X.fs[j]]]
             lo == X.start + ((t - X.start) \div S) * S + 1
         IN /\ cb \in X.allowed
            /\ CountIn(s, lo, n, X.fs, cb) <= CombW(F, X.fs, cb) * X.w * X.su

-----------------------------------------------------------------------------
(* Validity *)

TrialOK(F, nb, s, t) == LET pre == SubSeq(s, 1, t) tr == s[t + 1] IN
    /\ LevelsOK(F, nb, tr, t)
    /\ DerivedOK(F, nb, pre, tr, t)
    /\ SustainOK(F, nb, pre, tr, t)

Valid(F, nb, s) ==
    /\ nb.ok /\ ~nb.unsat
    /\ Len(s) = nb.T
    /\ \A t \in 0..(Len(s) - 1) : TrialOK(F, nb, s, t)
    /\ \A x \in 1..Len(nb.X) : CrossOK(F, nb, x, s, TRUE)
    /\ \A j \in 1..Len(nb.K) : ConOK(F, nb, nb.K[j], s)

\* name of the first clause a complete sequence fails ("ok" if none): total verdict for traces
Verdict(F, nb, s) ==
    IF ~nb.ok THEN "block refused"
    ELSE IF nb.unsat THEN "design reports an error"
    ELSE IF Len(s) # nb.T THEN "length"
    ELSE IF \E t \in 0..(Len(s) - 1) : ~LevelsOK(F, nb, s[t + 1], t) THEN "levels"
    ELSE IF \E t \in 0..(Len(s) - 1) : ~DerivedOK(F, nb, SubSeq(s, 1, t), s[t + 1], t) THEN "derived"
    ELSE IF \E t \in 0..(Len(s) - 1) : ~SustainOK(F, nb, SubSeq(s, 1, t), s[t + 1], t) THEN "sustain"
    ELSE IF \E x \in 1..Len(nb.X) : ~CrossOK(F, nb, x, s, TRUE) THEN "crossing"
    ELSE IF \E j \in 1..Len(nb.K) : ~ConOK(F, nb, nb.K[j], s)
         THEN nb.K[CHOOSE j \in 1..Len(nb.K) : ~ConOK(F, nb, nb.K[j], s)].c
    ELSE "ok"

\* RandomGen(acceptable_error = e) (documentation: "a number of combinations ... that are allowed to be missing (in
\* which case other combinations will be duplicated)"; it weakens only the rejection step).  CrossExcess counts the
\* duplicated occurrences - occurrences of a combination beyond its quota - over all chunks of a crossing; the sampler
\* keeps ONE budget for all crossings it checks by rejection.  Every other clause is unchanged.
CrossExcess(F, nb, x, s) ==
    LET X == nb.X[x]
        S == X.size * X.w
        n == Len(s)
    IN  IF S = 0 THEN 0
        ELSE Cardinality({ z \in X.allowed \X (0..((Max2(n - X.start, 0)) \div S)) \X (1..n) :
                LET cb == z[1]  ch == z[2]
                    lo == X.start + ch * S + 1
                    hi == Min2(lo + S - 1, n)
                IN z[3] <= CountIn(s, lo, hi, X.fs, cb) - CombW(F, X.fs, cb) * X.w * X.su })
CrossAllowedOK(F, nb, x, s) ==
    LET X == nb.X[x] IN \A u \in (X.start + 1)..Len(s) : [j \in 1..Len(X.fs) |-> s[u][X.fs[j]]] \in X.allowed
RECURSIVE SumExcess(_, _, _, _)
SumExcess(F, nb, s, x) == IF x = 0 THEN 0 ELSE CrossExcess(F, nb, x, s) + SumExcess(F, nb, s, x - 1)
VerdictErr(F, nb, s, e) ==
    IF ~nb.ok THEN "block refused"
    ELSE IF nb.unsat THEN "design reports an error"
    ELSE IF Len(s) # nb.T THEN "length"
    ELSE IF \E t \in 0..(Len(s) - 1) : ~LevelsOK(F, nb, s[t + 1], t) THEN "levels"
    ELSE IF \E t \in 0..(Len(s) - 1) : ~DerivedOK(F, nb, SubSeq(s, 1, t), s[t + 1], t) THEN "derived"
    ELSE IF \E t \in 0..(Len(s) - 1) : ~SustainOK(F, nb, SubSeq(s, 1, t), s[t + 1], t) THEN "sustain"
    ELSE IF \E x \in 1..Len(nb.X) : ~CrossAllowedOK(F, nb, x, s) THEN "crossing"
    ELSE IF SumExcess(F, nb, s, Len(nb.X)) > e THEN "crossing"
    ELSE IF \E j \in 1..Len(nb.K) : ~ConOK(F, nb, nb.K[j], s)
         THEN nb.K[CHOOSE j \in 1..Len(nb.K) : ~ConOK(F, nb, nb.K[j], s)].c
    ELSE "ok"

\* what may still become valid: used to prune generation.  The new trial was produced by Fill, so its
\* levels and derived levels are right by construction unless Fill marked "no unique level" (-1).
PrefixOK(F, nb, s) ==
    LET n == Len(s) IN
    /\ n <= nb.T
    /\ \A i \in 1..Len(F) : s[n][i] # -1
    /\ SustainOK(F, nb, SubSeq(s, 1, n - 1), s[n], n - 1)
    /\ \A x \in 1..Len(nb.X) : CrossPrefixOK(F, nb, x, s)
    /\ \A j \in 1..Len(nb.K) : ConPrefixOK(F, nb, nb.K[j], s)

\* R11: multiplicity of a sequence under a without-replacement sampler: copies of weighted
\* levels of non-derived factors that are in no crossing are distinct solutions
InSomeCrossing(nb, i) == \E x \in 1..Len(nb.X) : i \in RangeS(nb.X[x].fs)
Mult(F, nb, s) ==
    ProdSeq([t \in 1..Len(s) |->
       ProdSeq([i \in 1..Len(F) |->
          IF F[i].kind = "b" /\ i \in RangeS(nb.design) /\ ~InSomeCrossing(nb, i) /\ s[t][i] > 0
          THEN F[i].w[s[t][i]] ELSE 1])])

\* R11 as the documentation words it for MultiCrossBlock: the copies of a weighted level are distinct as soon as the factor
\* "is not in all crossings".  The code desugars only factors that are in NO crossing (READING-3); MultDoc is judged for
\* blocks without Nest (the documentation is silent about weights under Nest), see known finding KF14.
InEveryCrossing(nb, i) == \A x \in 1..Len(nb.X) : i \in RangeS(nb.X[x].fs)
MultDoc(F, nb, s) ==
    ProdSeq([t \in 1..Len(s) |->
       ProdSeq([i \in 1..Len(F) |->
          IF F[i].kind = "b" /\ i \in RangeS(nb.design) /\ ~InEveryCrossing(nb, i) /\ s[t][i] > 0
          THEN F[i].w[s[t][i]] ELSE 1])])

=============================================================================
