------------------------------ MODULE BuildGen ------------------------------
(***************************************************************************)
(* C18: construction histories.  A history is a sequence of Build actions  *)
(* over a set of block templates that share factor and constraint objects; *)
(* no template is built twice.  TLC generates every history of length up   *)
(* to BLEN; the harness builds the blocks in that order on shared objects  *)
(* and compares the LAST block with the meaning Design.tla gives to the    *)
(* same block built from fresh objects (the requirement of C18: the        *)
(* meaning of a block depends on its own description only).                *)
(***************************************************************************)
EXTENDS Naturals, Sequences, FiniteSets, TLC, IOUtils
NT == IF "VERIF_NTEMPLATES" \in DOMAIN IOEnv THEN (CHOOSE n \in 1..24 : ToString(n) = IOEnv.VERIF_NTEMPLATES) ELSE 4
BLen == IF "VERIF_BLEN" \in DOMAIN IOEnv THEN (CHOOSE n \in 1..4 : ToString(n) = IOEnv.VERIF_BLEN) ELSE 2
VARIABLE built
Init == built = <<>>
Build(t) == /\ \A i \in 1..Len(built) : built[i] # t
            /\ built' = Append(built, t)
Next == Len(built) < BLen /\ \E t \in 1..NT : Build(t)
Spec == Init /\ [][Next]_built
Report == (Len(built) >= 2) => PrintT(<<"B", built>>)
=============================================================================
