----------------------------- MODULE Continuous -----------------------------
(***************************************************************************)
(* C22: sampling of continuous factors for one returned sequence.          *)
(*                                                                         *)
(* The custom distributions of the test designs record every call          *)
(* (factor, inputs, value).  The calls are replayed: action Gen consumes   *)
(* the next recorded call and requires that it is the call the documented  *)
(* procedure makes next - factors in design order, trials 0..T-1 for each, *)
(* inputs = the same trial's level of a discrete dependency, the same      *)
(* trial's value of a continuous dependency, and for a                     *)
(* ContinuousFactorWindow the values of the preceding width-1 trials and   *)
(* this one (NaN before `start`, off the stride, or before the sequence    *)
(* began).  When all factors are generated the ContinuousConstraint        *)
(* predicates are evaluated: Accept requires them to hold at every trial   *)
(* and the returned columns to be this attempt's values; Resample starts   *)
(* over otherwise.  NaN is the token -999.                                 *)
(***************************************************************************)
EXTENDS Naturals, Integers, Sequences, FiniteSets, TLC, Json, IOUtils, SequencesExt

Cases == JsonDeserialize(IOEnv.VERIF_CASES)
NC == Len(Cases)
NaN == 0 - 999

VARIABLES c, k, vals, verdict
vars == <<c, k, vals, verdict>>
\* k = number of calls consumed; vals[f] = values generated for factor f in the current attempt

NF(cs) == Len(cs.cf)
Empty(cs) == [f \in 1..NF(cs) |-> <<>>]
Init == c \in 1..NC /\ k = 0 /\ vals = Empty(Cases[c]) /\ verdict = "run"

\* position of the next call inside the current attempt
Done(cs, f) == ~cs.cf[f].custom \/ Len(vals[f]) = cs.T      \* built-in distributions make no recorded calls
CurF(cs) == CHOOSE f \in 1..(NF(cs) + 1) : (f = NF(cs) + 1 \/ ~Done(cs, f)) /\ \A g \in 1..(f - 1) : Done(cs, g)
CurT(cs) == Len(vals[CurF(cs)])

WindowInput(cs, d, t) ==
    [j \in 1..Len(d.fs) |->
        [p \in 1..d.width |->
            LET u == t - (d.width - p) IN
            IF t < d.start \/ (t - d.start) % d.stride # 0 THEN NaN
            ELSE IF u < 0 THEN NaN
            ELSE vals[d.fs[j]][u + 1]]]

ExpectedInputs(cs, f, t) ==
    [j \in 1..Len(cs.cf[f].deps) |->
        LET d == cs.cf[f].deps[j] IN
        CASE d.k = "d" -> <<cs.disc[t + 1][d.f]>>
          [] d.k = "c" -> <<vals[d.idx][t + 1]>>
          [] d.k = "w" -> WindowInput(cs, d, t)]

RECURSIVE SumSeq(_)
SumSeq(s) == IF s = <<>> THEN 0 ELSE Head(s) + SumSeq(Tail(s))

\* value that generate() returns for the raw function result v: cumulative factors return the running sum of the
\* attempt; vals holds these returned values (they are what dependent factors and windows see)
Out(cs, f, v) == IF cs.cf[f].cumulative /\ vals[f] # <<>> THEN Last(vals[f]) + v ELSE v

Holds(p, xs) == CASE p.op = "lt" -> xs[1] < p.k
                  [] p.op = "ne" -> xs[1] # p.k
                  [] p.op = "lt2" -> xs[1] < xs[2]
                  [] p.op = "sumle" -> xs[1] + xs[2] <= p.k
ConsHold(cs, vs) == \A q \in 1..Len(cs.cons) : \A t \in 1..cs.T :
                       Holds(cs.cons[q].pred, [j \in 1..Len(cs.cons[q].fs) |-> vs[cs.cons[q].fs[j]][t]])

\* one recorded call of a distribution function
Gen == /\ verdict = "run" /\ k < Len(Cases[c].calls)
       /\ LET cs == Cases[c]  call == cs.calls[k + 1]  f == CurF(cs) IN
          IF f = NF(cs) + 1 THEN
               \* the attempt is complete: a further call means the sampler resampled
               IF ConsHold(cs, vals) THEN verdict' = "resampled although every constraint held" /\ UNCHANGED <<k, vals>>
               ELSE vals' = Empty(cs) /\ UNCHANGED <<k, verdict>>                                  \* Resample
          ELSE IF call.f # f THEN verdict' = "call for another factor than the procedure generates next" /\ UNCHANGED <<k, vals>>
          ELSE IF call.inputs # ExpectedInputs(cs, f, CurT(cs)) THEN verdict' = "inputs differ from the window / dependency values" /\ UNCHANGED <<k, vals>>
          ELSE /\ vals' = [vals EXCEPT ![f] = Append(@, Out(cs, f, call.v))]
               /\ k' = k + 1 /\ UNCHANGED verdict
       /\ UNCHANGED c

\* all calls consumed: the attempt must be complete, accepted, and be what was returned
Accept == /\ verdict = "run" /\ k = Len(Cases[c].calls)
          /\ LET cs == Cases[c]
                 outs == vals
             IN verdict' =
                IF \E f \in 1..NF(cs) : cs.cf[f].custom /\ Len(vals[f]) # cs.T THEN "sampling stopped in the middle of an attempt"
                ELSE IF \E f \in 1..NF(cs) : Len(cs.final[f]) # cs.T THEN "a continuous factor does not have one value per trial"
                ELSE IF \E f \in 1..NF(cs) : cs.cf[f].custom /\ cs.final[f] # outs[f] THEN "returned values are not the last attempt's values"
                ELSE IF ~ConsHold(cs, cs.final) THEN "a ContinuousConstraint does not hold on the returned values"
                ELSE "ok"
          /\ UNCHANGED <<c, k, vals>>

Next == Gen \/ Accept
Spec == Init /\ [][Next]_vars
Report == (verdict # "run") => PrintT(<<"CONT", c, verdict, k>>)
=============================================================================
