------------------------------- MODULE MCNorm -------------------------------
(***************************************************************************)
(* Phase 0 of every batch: evaluate the block arithmetic (Blocks!NormTop)  *)
(* and the factor normal forms ONCE for all cases and serialise the values *)
(* for the model-checking runs (MCTrace, MCEnum, ...), which read them     *)
(* back as constants.  (TLC does not constant-fold definitions that reach  *)
(* RECURSIVE operators; evaluating them inside the model-checking run      *)
(* repeats the work at every use or once per worker.)                      *)
(***************************************************************************)
EXTENDS Design, Json, IOUtils

Cases == JsonDeserialize(IOEnv.VERIF_CASES)
NC == Len(Cases)

FNDef == TLCEval([d \in 1..NC |-> NormFactors(Cases[d].factors)])
NBDef(fn) == TLCEval([d \in 1..NC |-> NormTop(fn[d], Cases[d].block)])
CHDef(fn, nb) == TLCEval([d \in 1..NC |-> IF nb[d].ok THEN TLCEval(TrialChoices(fn[d], nb[d])) ELSE {}])

ASSUME LET fn == FNDef
           nb == NBDef(fn)
           ch == CHDef(fn, nb)
       IN IOSerialize(<<fn, nb, ch>>, IOEnv.VERIF_NORM, FALSE)

VARIABLE x
Init == x = 0
Next == FALSE /\ x' = x
Spec == Init /\ [][Next]_x
=============================================================================
