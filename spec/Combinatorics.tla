---------------------------- MODULE Combinatorics ---------------------------
(***************************************************************************)
(* C13: the index-to-arrangement functions of the combinatoric sampler.    *)
(* The arrangement sets are DEFINED here as sets; the state machine is the *)
(* enumerator "for j in 0..N-1: unrank(j)" with the set `seen` of results  *)
(* so far.  Recorded calls of the real functions are replayed: action Step *)
(* consumes the result logged for index j and requires it to be an         *)
(* arrangement that was not produced before; Finish requires that the      *)
(* count function's N equals the cardinality and nothing is missing.       *)
(***************************************************************************)
EXTENDS Naturals, Integers, Sequences, FiniteSets, TLC, Json, IOUtils

Cases == JsonDeserialize(IOEnv.VERIF_CASES)
NC == Len(Cases)

RECURSIVE ProdFn(_)
ProdFn(D) == IF D = <<>> THEN { <<>> }
             ELSE { Append(p, v) : p \in ProdFn(SubSeq(D, 1, Len(D) - 1)), v \in D[Len(D)] }

Occur(s, v) == Cardinality({ i \in 1..Len(s) : s[i] = v })

\* the arrangements of each kind (params is a record)
Arr(kind, p) ==
    CASE kind = "mixed_radix"      -> ProdFn([i \in 1..Len(p.sizes) |-> 0..(p.sizes[i] - 1)])
      [] kind = "combination"      -> ProdFn([i \in 1..p.l |-> 0..(p.n - 1)])
      [] kind = "combination_norep" ->
            { s \in ProdFn([i \in 1..p.m |-> 0..(p.n - 1)]) : \A i \in 1..(p.m - 1) : s[i] > s[i + 1] }
      [] kind = "permutation_prefix" ->
            { s \in ProdFn([i \in 1..p.m |-> 0..(p.n - 1)]) : \A i, j \in 1..p.m : i # j => s[i] # s[j] }
      [] kind = "prefix_with_copies" ->
            { s \in ProdFn([i \in 1..p.first_n |-> 0..(p.q - 1)]) : \A v \in 0..(p.q - 1) : Occur(s, v) <= p.counters[v + 1] }

\* membership stated directly (for parameter tuples too large to enumerate the set)
IsArr(kind, p, s) ==
    CASE kind = "mixed_radix"      -> Len(s) = Len(p.sizes) /\ \A i \in 1..Len(s) : s[i] \in 0..(p.sizes[i] - 1)
      [] kind = "combination"      -> Len(s) = p.l /\ \A i \in 1..Len(s) : s[i] \in 0..(p.n - 1)
      [] kind = "combination_norep" ->
            Len(s) = p.m /\ (\A i \in 1..Len(s) : s[i] \in 0..(p.n - 1)) /\ \A i \in 1..(p.m - 1) : s[i] > s[i + 1]
      [] kind = "permutation_prefix" ->
            Len(s) = p.m /\ (\A i \in 1..Len(s) : s[i] \in 0..(p.n - 1)) /\ \A i, k \in 1..p.m : i # k => s[i] # s[k]
      [] kind = "prefix_with_copies" ->
            Len(s) = p.first_n /\ (\A i \in 1..Len(s) : s[i] \in 0..(p.q - 1))
            /\ \A v \in 0..(p.q - 1) : Occur(s, v) <= p.counters[v + 1]

ASSUME TLCSet(1, TLCEval([d \in 1..NC |-> IF Cases[d].exhaustive THEN TLCEval(Arr(Cases[d].kind, Cases[d].params)) ELSE {}]))
ArrOf == TLCGet(1)

VARIABLES c, j, seen, verdict
vars == <<c, j, seen, verdict>>

Init == c \in 1..NC /\ j = 0 /\ seen = {} /\ verdict = "run"

\* consume the result recorded for index j
Step == /\ verdict = "run" /\ j < Len(Cases[c].results)
        /\ LET r == Cases[c].results[j + 1] IN
           IF ~IsArr(Cases[c].kind, Cases[c].params, r) \/ (Cases[c].exhaustive /\ r \notin ArrOf[c])
           THEN verdict' = "not an arrangement" /\ UNCHANGED <<j, seen>>
           ELSE IF r \in seen THEN verdict' = "duplicate" /\ UNCHANGED <<j, seen>>
           ELSE seen' = seen \cup {r} /\ j' = j + 1 /\ verdict' = "run"
        /\ UNCHANGED c

Finish == /\ verdict = "run" /\ j = Len(Cases[c].results)
          /\ verdict' = IF Cases[c].exhaustive /\ Cases[c].count # Cardinality(ArrOf[c]) THEN "count"
                        ELSE IF Cases[c].exhaustive /\ seen # ArrOf[c] THEN "missing"
                        ELSE "ok"
          /\ UNCHANGED <<c, j, seen>>

Next == Step \/ Finish
Spec == Init /\ [][Next]_vars

Report == (verdict \notin {"run"}) => PrintT(<<"U", c, verdict, j, Cardinality(ArrOf[c])>>)
=============================================================================
