-------------------------------- MODULE Text --------------------------------
(***************************************************************************)
(* Byte-level readers, written in TLA+, for the text SweetPea exchanges     *)
(* with solvers: DIMACS CNF (with the "c ind" sampling-set comments),       *)
(* solver output lines, and OPB pseudo-Boolean constraints.  A text is a    *)
(* sequence of byte values.  These readers are the independent reference    *)
(* that the library's own writers and parsers are compared with (C27, C28). *)
(***************************************************************************)
EXTENDS Naturals, Integers, Sequences, FiniteSets, TLC, SequencesExt

NL == 10
IsSpace(b) == b \in {32, 9, 13}
IsDigit(b) == b >= 48 /\ b <= 57

\* split a byte sequence into lines (without the terminators)
RECURSIVE SplitLines(_, _, _)
SplitLines(bs, i, cur) ==
    IF i > Len(bs) THEN (IF cur = <<>> THEN <<>> ELSE <<cur>>)
    ELSE IF bs[i] = NL THEN <<cur>> \o SplitLines(bs, i + 1, <<>>)
    ELSE SplitLines(bs, i + 1, Append(cur, bs[i]))
Lines(bs) == SplitLines(bs, 1, <<>>)

\* split a line into whitespace-separated tokens
RECURSIVE SplitTokens(_, _, _)
SplitTokens(ln, i, cur) ==
    IF i > Len(ln) THEN (IF cur = <<>> THEN <<>> ELSE <<cur>>)
    ELSE IF IsSpace(ln[i]) THEN (IF cur = <<>> THEN SplitTokens(ln, i + 1, <<>>) ELSE <<cur>> \o SplitTokens(ln, i + 1, <<>>))
    ELSE SplitTokens(ln, i + 1, Append(cur, ln[i]))
Tokens(ln) == SplitTokens(ln, 1, <<>>)

RECURSIVE Digits(_, _)
Digits(tok, acc) == IF tok = <<>> THEN acc ELSE Digits(Tail(tok), 10 * acc + (Head(tok) - 48))
IsInt(tok) == /\ tok # <<>>
              /\ LET body == IF Head(tok) \in {45, 43} THEN Tail(tok) ELSE tok IN
                 body # <<>> /\ \A k \in 1..Len(body) : IsDigit(body[k])
ToInt(tok) == IF Head(tok) = 45 THEN -Digits(Tail(tok), 0)
              ELSE IF Head(tok) = 43 THEN Digits(Tail(tok), 0) ELSE Digits(tok, 0)

StartsWith(ln, pre) == Len(ln) >= Len(pre) /\ SubSeq(ln, 1, Len(pre)) = pre
Strip(ln) == LET ts == { k \in 1..Len(ln) : ~IsSpace(ln[k]) } IN
             IF ts = {} THEN <<>> ELSE SubSeq(ln, CHOOSE a \in ts : \A b \in ts : a <= b, CHOOSE a \in ts : \A b \in ts : a >= b)

RECURSIVE FlatS(_)
FlatS(ss) == IF ss = <<>> THEN <<>> ELSE Head(ss) \o FlatS(Tail(ss))

\* ---------------------------------------------------------------- DIMACS
CInd == <<99, 32, 105, 110, 100>>          \* "c ind"
IsComment(ln) == ln # <<>> /\ ln[1] = 99    \* 'c'
IsHeader(ln) == ln # <<>> /\ ln[1] = 112    \* 'p'

\* integers of all non-comment, non-header lines, in order (clauses may in principle span lines)
BodyInts(ls) == FlatS([k \in 1..Len(ls) |->
                   LET ln == Strip(ls[k]) IN
                   IF ln = <<>> \/ IsComment(ln) \/ IsHeader(ln) THEN <<>>
                   ELSE LET ts == Tokens(ln) IN [t \in 1..Len(ts) |-> IF IsInt(ts[t]) THEN ToInt(ts[t]) ELSE 0 - 999999]])

\* cut a sequence of integers into 0-terminated clauses; a trailing unterminated clause is kept in `rest`
RECURSIVE CutClauses(_, _, _)
CutClauses(xs, cur, acc) ==
    IF xs = <<>> THEN [clauses |-> acc, rest |-> cur]
    ELSE IF Head(xs) = 0 THEN CutClauses(Tail(xs), <<>>, Append(acc, cur))
    ELSE CutClauses(Tail(xs), Append(cur, Head(xs)), acc)

ParseDimacs(bs) ==
    LET ls == Lines(bs)
        hs == { k \in 1..Len(ls) : IsHeader(Strip(ls[k])) }
        hd == IF hs = {} THEN <<>> ELSE Tokens(Strip(ls[CHOOSE k \in hs : \A j \in hs : k <= j]))
        inds == FlatS([k \in 1..Len(ls) |->
                   LET ln == Strip(ls[k]) IN
                   IF StartsWith(ln, CInd) THEN LET ts == Tokens(SubSeq(ln, 6, Len(ln))) IN
                        SelectSeq([t \in 1..Len(ts) |-> IF IsInt(ts[t]) THEN ToInt(ts[t]) ELSE 0 - 999999], LAMBDA x : x # 0)
                   ELSE <<>>])
        cut == CutClauses(BodyInts(ls), <<>>, <<>>)
    IN [headers |-> Cardinality(hs),
        nvars |-> IF Len(hd) >= 4 /\ IsInt(hd[3]) THEN ToInt(hd[3]) ELSE 0 - 1,
        nclauses |-> IF Len(hd) >= 4 /\ IsInt(hd[4]) THEN ToInt(hd[4]) ELSE 0 - 1,
        ind |-> inds,
        clauses |-> cut.clauses,
        rest |-> cut.rest]

\* ---------------------------------------------------------------- solver output ("v" lines)
ParseVLines(bs) ==
    LET ls == Lines(bs)
        ints == FlatS([k \in 1..Len(ls) |->
                   LET ln == Strip(ls[k]) IN
                   IF ln # <<>> /\ ln[1] = 118 THEN
                        LET ts == SelectSeq(Tokens(SubSeq(ln, 2, Len(ln))), IsInt) IN [t \in 1..Len(ts) |-> ToInt(ts[t])]
                   ELSE <<>>])
    IN ints

\* ---------------------------------------------------------------- OPB
\* a constraint line:  (+|-)c vN ... (>=|<=|=) rhs ;      (one constraint per line)
Semi == <<59>>
ParseOpbLine(ln) ==
    LET ts == Tokens(ln)
        relpos == { k \in 1..Len(ts) : ts[k] \in { <<62, 61>>, <<60, 61>>, <<61>> } }
        r == CHOOSE k \in relpos : TRUE
        nterms == (r - 1) \div 2
    IN [terms |-> [j \in 1..nterms |-> <<ToInt(ts[2 * j - 1]), ToInt(Tail(ts[2 * j]))>>],   \* <<coefficient, variable>>
        rel |-> ts[r],
        rhs |-> ToInt(IF Last(ts[r + 1]) = 59 THEN Front(ts[r + 1]) ELSE ts[r + 1]),
        wellformed |-> /\ Cardinality(relpos) = 1 /\ (r - 1) % 2 = 0 /\ Len(ts) >= r + 1
                       /\ \A j \in 1..nterms : IsInt(ts[2 * j - 1]) /\ Len(ts[2 * j]) >= 2 /\ ts[2 * j][1] = 118 /\ IsInt(Tail(ts[2 * j]))]

ParseOpb(bs) == LET ls == SelectSeq([k \in 1..Len(Lines(bs)) |-> Strip(Lines(bs)[k])], LAMBDA ln : ln # <<>> /\ ln[1] # 42) IN
                [k \in 1..Len(ls) |-> ParseOpbLine(ls[k])]

RECURSIVE SumTerms(_, _)
SumTerms(terms, val) == IF terms = <<>> THEN 0
                        ELSE (IF val[Head(terms)[2]] THEN Head(terms)[1] ELSE 0) + SumTerms(Tail(terms), val)
PBHolds(con, val) == LET s == SumTerms(con.terms, val) IN
    CASE con.rel = <<62, 61>> -> s >= con.rhs
      [] con.rel = <<60, 61>> -> s <= con.rhs
      [] con.rel = <<61>> -> s = con.rhs
PBSat(cons, val) == \A k \in 1..Len(cons) : PBHolds(cons[k], val)
=============================================================================
