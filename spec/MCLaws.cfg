SPECIFICATION Spec
INVARIANT Report
INVARIANT Count
CHECK_DEADLOCK FALSE
