#!/bin/bash
# run every registered check (quick by default) and print one summary line each
tier=${1:-quick}
cd "$(dirname "$0")"
for p in $(python3 -c "import json; print(' '.join(c['property_id'] for c in json.load(open('MANIFEST.json'))['checks']))"); do
  s=$(date +%s)
  out=$(timeout 3000 ./check $p --tier $tier 2>&1)
  rc=$?
  e=$(( $(date +%s) - s ))
  echo "$p rc=$rc ${e}s $(echo "$out" | grep -E '^(OK|MACHINERY)' | cut -c1-160) viol=$(echo "$out" | grep -c '^VIOLATION') known=$(echo "$out" | grep -c '^KNOWN')"
  echo "$out" | grep -E '^VIOLATION' | head -3 | cut -c1-300
done
