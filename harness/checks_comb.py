"""C13 (unranking functions) and C05 (RandomGen draw tree): oracle = Combinatorics.tla / RandomLoop.tla."""
import itertools
import os
import random
import sys
import time

import common
import tlc
from common import violation

REPO = os.environ.get("VERIF_REPO", "/repo")
if REPO not in sys.path:
    sys.path.insert(0, REPO)


def comb_cases(tier, rng):
    from sweetpea._internal import combinatorics as cb
    from math import factorial
    cases = []

    def add(kind, params, count, fn, exhaustive=True, sample=None, ident=""):
        rec = {"kind": kind, "params": params, "count": count, "exhaustive": exhaustive, "results": [], "meta": {"id": ident}}
        idxs = range(count) if exhaustive else sample
        try:
            for j in idxs:
                rec["results"].append(list(fn(j)))
        except Exception as e:
            rec["meta"]["raised"] = "%s at j=%d: %s" % (type(e).__name__, j, str(e)[:100])
        cases.append(rec)

    N = 5 if tier == "quick" else 6
    # mixed radix
    for sizes in [[2], [3, 2], [2, 3, 2], [1, 4], [3, 3, 2], [4, 1, 2, 2]]:
        n = 1
        for s_ in sizes:
            n *= s_
        add("mixed_radix", {"sizes": sizes}, n, lambda j, sizes=sizes: cb.extract_components(sizes, j), ident="extract_components %s" % sizes)
    # combinations with replacement (base-n numbers)
    for l in range(1, 5):
        for n in range(1, 4):
            add("combination", {"l": l, "n": n}, n ** l, lambda j, l=l, n=n: cb.compute_jth_combination(l, n, j),
                ident="compute_jth_combination l=%d n=%d" % (l, n))
    # combinations without replacement
    for n in range(1, N + 2):
        for m in range(1, n + 1):
            add("combination_norep", {"n": n, "m": m}, cb.n_choose_m(n, m),
                lambda j, n=n, m=m: cb.compute_jth_combination_without_replacement(n, m, j),
                ident="compute_jth_combination_without_replacement n=%d m=%d" % (n, m))
    # permutation prefixes
    for n in range(1, N + 1):
        for m in range(1, n + 1):
            cnt = factorial(n) // factorial(n - m)
            add("permutation_prefix", {"n": n, "m": m}, cnt, lambda j, n=n, m=m: cb.compute_jth_permutation_prefix(n, m, j),
                ident="compute_jth_permutation_prefix n=%d m=%d" % (n, m))
    # prefixes of permutations with copies: uniform m and per-element counters
    for q in range(1, 4):
        for m in range(1, 4):
            for first_n in range(1, q * m + 1):
                if q ** first_n > 3000:
                    continue
                memo = cb.PermutationMemo()
                cnt = cb.count_prefixes_of_permutations_with_copies(q, m, first_n, memo)
                add("prefix_with_copies", {"q": q, "counters": [m] * q, "first_n": first_n}, cnt,
                    lambda j, q=q, m=m, first_n=first_n, memo=memo: cb.compute_jth_prefix_of_permutations_with_copies(q, m, first_n, j, memo),
                    ident="prefix_with_copies q=%d m=%d first_n=%d" % (q, m, first_n))
    counter_sets = [[1, 2], [2, 1], [3, 1], [1, 3], [1, 1, 2], [2, 1, 1], [2, 2, 1], [1, 2, 3], [3, 1, 2], [2, 3], [1, 1, 1, 2]]
    if tier != "quick":
        counter_sets += [[3, 2, 1], [4, 1], [1, 4], [2, 2, 2, 1], [3, 3], [1, 2, 2, 1]]
    for counters in counter_sets:
        q = len(counters)
        for first_n in range(1, sum(counters) + 1):
            if q ** first_n > 3000:
                continue
            memo = cb.PermutationMemo()
            cnt = cb.count_prefixes_of_permutations_with_copies(q, list(counters), first_n, memo)
            add("prefix_with_copies", {"q": q, "counters": counters, "first_n": first_n}, cnt,
                lambda j, q=q, counters=counters, first_n=first_n, memo=memo:
                    cb.compute_jth_prefix_of_permutations_with_copies(q, list(counters), first_n, j, memo),
                ident="prefix_with_copies counters=%s first_n=%d" % (counters, first_n))
        # full multiset permutations through the dedicated constructors
        tot = sum(counters)
        cnt = cb.count_permutations_with_varying_copies(q, list(counters), tot)
        add("prefix_with_copies", {"q": q, "counters": counters, "first_n": tot}, cnt,
            lambda j, q=q, counters=counters: cb.construct_permutation_with_varying_copies(j, q, list(counters)),
            ident="construct_permutation_with_varying_copies %s" % counters)
    for q, m in [(2, 2), (3, 1), (2, 3), (3, 2)]:
        cnt = cb.count_permutations_with_copies(q, m, q * m)
        add("prefix_with_copies", {"q": q, "counters": [m] * q, "first_n": q * m}, cnt,
            lambda j, q=q, m=m: cb.construct_permutation_with_copies(j, q, m), ident="construct_permutation_with_copies q=%d m=%d" % (q, m))
    # larger random tuples: membership and injectivity on sampled indices only
    nl = 10 if tier == "quick" else 60
    for _ in range(nl):
        n = rng.randrange(7, 12)
        m = rng.randrange(2, n)
        cnt = factorial(n) // factorial(n - m)
        sample = sorted(set(rng.randrange(cnt) for _ in range(60)))
        add("permutation_prefix", {"n": n, "m": m}, cnt, lambda j, n=n, m=m: cb.compute_jth_permutation_prefix(n, m, j),
            exhaustive=False, sample=sample, ident="compute_jth_permutation_prefix n=%d m=%d (sampled)" % (n, m))
        q = rng.randrange(3, 6)
        counters = [rng.randrange(1, 4) for _ in range(q)]
        first_n = rng.randrange(2, sum(counters) + 1)
        memo = cb.PermutationMemo()
        cnt = cb.count_prefixes_of_permutations_with_copies(q, list(counters), first_n, memo)
        sample = sorted(set(rng.randrange(cnt) for _ in range(60)))
        add("prefix_with_copies", {"q": q, "counters": counters, "first_n": first_n}, cnt,
            lambda j, q=q, counters=counters, first_n=first_n, memo=memo:
                cb.compute_jth_prefix_of_permutations_with_copies(q, list(counters), first_n, j, memo),
            exhaustive=False, sample=sample, ident="prefix_with_copies counters=%s first_n=%d (sampled)" % (counters, first_n))
    return cases


def c13(tier, seed):
    t0 = time.time()
    rng = random.Random(seed)
    out, stats, err = [], {"states": 0, "transitions": 0}, None
    cases = comb_cases(tier, rng)
    for c in cases:
        if "raised" in c["meta"]:
            out.append(violation("C13", "raised", {"id": c["meta"]["id"], "params": c["params"]}, detail=c["meta"]["raised"],
                                 fn=c["kind"]))
    good = [c for c in cases if "raised" not in c["meta"]]
    try:
        for i in range(0, len(good), 150):
            chunk = good[i:i + 150]
            path = tlc.write_cases([{k: v for k, v in c.items() if k != "meta"} for c in chunk], "comb")
            try:
                r = tlc.run("Combinatorics.tla", "Combinatorics.cfg", env={"VERIF_CASES": path}, tags=("U",), timeout=1500)
            finally:
                os.unlink(path)
            stats["states"] += r.distinct
            stats["transitions"] += r.states
            seen = set()
            for rec in r.records:
                seen.add(rec[1])
                if rec[2] != "ok":
                    c = chunk[rec[1] - 1]
                    out.append(violation("C13", "unrank", {"id": c["meta"]["id"], "params": c["params"]}, verdict=rec[2],
                                         index=rec[3], reported_count=c["count"], arrangements=rec[4], fn=c["kind"],
                                         result=(c["results"][rec[3]] if rec[3] < len(c["results"]) else None)))
            if len(seen) != len(chunk):
                raise tlc.TLCError("missing verdicts: %d of %d" % (len(seen), len(chunk)))
    except tlc.TLCError as e:
        err = str(e)[:1500]
    cov = {"evaluations": sum(len(c["results"]) for c in good), "distinct_nontrivial": sum(1 for c in good if c["count"] > 1),
           "states": stats["states"], "transitions": stats["transitions"],
           "traces_validated_against_impl": len(good),
           "rule": "every parameter tuple up to the bound for extract_components, compute_jth_combination(_without_replacement), "
                   "compute_jth_permutation_prefix, compute_jth_prefix_of_permutations_with_copies (uniform and per-element "
                   "counters) and the full multiset-permutation constructors: all indices 0..N-1 are unranked by the real "
                   "functions and replayed into the enumerator machine of Combinatorics.tla; larger random tuples are sampled "
                   "(membership + injectivity); non-trivial = N > 1",
           "samples": [{k: v for k, v in good[len(good) // 2].items() if k != "meta"}], "exhaustive": True}
    return common.finish("C13", tier, seed, "model_checking", out, cov, t0, machinery_error=err)


CHECKS = {"C13": c13}
