"""C13 (unranking functions) and C05 (RandomGen draw tree): oracle = Combinatorics.tla / RandomLoop.tla."""
import itertools
import os
import random
import sys
import time

import common
import tlc
from common import violation

REPO = os.environ.get("VERIF_REPO", "/repo")
if REPO not in sys.path:
    sys.path.insert(0, REPO)


def comb_cases(tier, rng):
    from sweetpea._internal import combinatorics as cb
    from math import factorial
    cases = []

    def add(kind, params, count, fn, exhaustive=True, sample=None, ident=""):
        rec = {"kind": kind, "params": params, "count": count, "exhaustive": exhaustive, "results": [], "meta": {"id": ident}}
        idxs = range(count) if exhaustive else sample
        try:
            for j in idxs:
                rec["results"].append(list(fn(j)))
        except Exception as e:
            rec["meta"]["raised"] = "%s at j=%d: %s" % (type(e).__name__, j, str(e)[:100])
        cases.append(rec)

    N = 5 if tier == "quick" else 6
    # mixed radix
    for sizes in [[2], [3, 2], [2, 3, 2], [1, 4], [3, 3, 2], [4, 1, 2, 2]]:
        n = 1
        for s_ in sizes:
            n *= s_
        add("mixed_radix", {"sizes": sizes}, n, lambda j, sizes=sizes: cb.extract_components(sizes, j), ident="extract_components %s" % sizes)
    # combinations with replacement (base-n numbers)
    for l in range(1, 5):
        for n in range(1, 4):
            add("combination", {"l": l, "n": n}, n ** l, lambda j, l=l, n=n: cb.compute_jth_combination(l, n, j),
                ident="compute_jth_combination l=%d n=%d" % (l, n))
    # combinations without replacement
    for n in range(1, N + 2):
        for m in range(1, n + 1):
            add("combination_norep", {"n": n, "m": m}, cb.n_choose_m(n, m),
                lambda j, n=n, m=m: cb.compute_jth_combination_without_replacement(n, m, j),
                ident="compute_jth_combination_without_replacement n=%d m=%d" % (n, m))
    # permutation prefixes
    for n in range(1, N + 1):
        for m in range(1, n + 1):
            cnt = factorial(n) // factorial(n - m)
            add("permutation_prefix", {"n": n, "m": m}, cnt, lambda j, n=n, m=m: cb.compute_jth_permutation_prefix(n, m, j),
                ident="compute_jth_permutation_prefix n=%d m=%d" % (n, m))
    # prefixes of permutations with copies: uniform m and per-element counters
    for q in range(1, 4):
        for m in range(1, 4):
            for first_n in range(1, q * m + 1):
                if q ** first_n > 3000:
                    continue
                memo = cb.PermutationMemo()
                cnt = cb.count_prefixes_of_permutations_with_copies(q, m, first_n, memo)
                add("prefix_with_copies", {"q": q, "counters": [m] * q, "first_n": first_n}, cnt,
                    lambda j, q=q, m=m, first_n=first_n, memo=memo: cb.compute_jth_prefix_of_permutations_with_copies(q, m, first_n, j, memo),
                    ident="prefix_with_copies q=%d m=%d first_n=%d" % (q, m, first_n))
    counter_sets = [[1, 2], [2, 1], [3, 1], [1, 3], [1, 1, 2], [2, 1, 1], [2, 2, 1], [1, 2, 3], [3, 1, 2], [2, 3], [1, 1, 1, 2]]
    if tier != "quick":
        counter_sets += [[3, 2, 1], [4, 1], [1, 4], [2, 2, 2, 1], [3, 3], [1, 2, 2, 1]]
    for counters in counter_sets:
        q = len(counters)
        for first_n in range(1, sum(counters) + 1):
            if q ** first_n > 3000:
                continue
            memo = cb.PermutationMemo()
            cnt = cb.count_prefixes_of_permutations_with_copies(q, list(counters), first_n, memo)
            add("prefix_with_copies", {"q": q, "counters": counters, "first_n": first_n}, cnt,
                lambda j, q=q, counters=counters, first_n=first_n, memo=memo:
                    cb.compute_jth_prefix_of_permutations_with_copies(q, list(counters), first_n, j, memo),
                ident="prefix_with_copies counters=%s first_n=%d" % (counters, first_n))
        # full multiset permutations through the dedicated constructors
        tot = sum(counters)
        cnt = cb.count_permutations_with_varying_copies(q, list(counters), tot)
        add("prefix_with_copies", {"q": q, "counters": counters, "first_n": tot}, cnt,
            lambda j, q=q, counters=counters: cb.construct_permutation_with_varying_copies(j, q, list(counters)),
            ident="construct_permutation_with_varying_copies %s" % counters)
    for q, m in [(2, 2), (3, 1), (2, 3), (3, 2)]:
        cnt = cb.count_permutations_with_copies(q, m, q * m)
        add("prefix_with_copies", {"q": q, "counters": [m] * q, "first_n": q * m}, cnt,
            lambda j, q=q, m=m: cb.construct_permutation_with_copies(j, q, m), ident="construct_permutation_with_copies q=%d m=%d" % (q, m))
    # ONE PermutationMemo serving several prefix lengths (the memo is hidden state of the unranking functions): descending,
    # ascending and interleaved orders of (length, index); every length's results are judged as before, so an answer
    # that depends on what the memo saw earlier shows up as a duplicate / missing / invalid arrangement
    shared_sets = [(2, [2, 2]), (2, [3, 3]), (3, [2, 2, 2]), (3, [1, 2, 3]), (2, [1, 3]), (3, [2, 1, 2])]
    for q, counters in shared_sets:
        uniform = len(set(counters)) == 1
        arg = counters[0] if uniform else None
        tot = sum(counters)
        lens = [n for n in range(1, tot + 1) if q ** n <= 3000]
        for order_name, order in (("descending", sorted(lens, reverse=True)), ("ascending", sorted(lens)),
                                  ("zigzag", [x for pair in zip(sorted(lens, reverse=True), sorted(lens)) for x in pair])):
            memo = cb.PermutationMemo()
            for first_n in order:
                cs_arg = arg if uniform else list(counters)
                cnt = cb.count_prefixes_of_permutations_with_copies(q, cs_arg, first_n, memo)
                add("prefix_with_copies", {"q": q, "counters": counters, "first_n": first_n}, cnt,
                    lambda j, q=q, cs_arg=cs_arg, first_n=first_n, memo=memo:
                        cb.compute_jth_prefix_of_permutations_with_copies(q, (cs_arg if isinstance(cs_arg, int) else list(cs_arg)), first_n, j, memo),
                    ident="shared memo %s counters=%s first_n=%d" % (order_name, counters, first_n))
        # interleaved: index by index, alternating between two lengths on one memo
        if len(lens) >= 2:
            a_len, b_len = lens[-1], lens[-2]
            memo = cb.PermutationMemo()
            cs_arg = arg if uniform else list(counters)
            ca = cb.count_prefixes_of_permutations_with_copies(q, cs_arg, a_len, memo)
            cbn = cb.count_prefixes_of_permutations_with_copies(q, cs_arg, b_len, memo)
            ra = {"kind": "prefix_with_copies", "params": {"q": q, "counters": counters, "first_n": a_len}, "count": ca, "exhaustive": True,
                  "results": [], "meta": {"id": "shared memo interleaved counters=%s first_n=%d" % (counters, a_len)}}
            rb = {"kind": "prefix_with_copies", "params": {"q": q, "counters": counters, "first_n": b_len}, "count": cbn, "exhaustive": True,
                  "results": [], "meta": {"id": "shared memo interleaved counters=%s first_n=%d" % (counters, b_len)}}
            try:
                for j in range(max(ca, cbn)):
                    if j < ca:
                        ra["results"].append(list(cb.compute_jth_prefix_of_permutations_with_copies(
                            q, (cs_arg if isinstance(cs_arg, int) else list(cs_arg)), a_len, j, memo)))
                    if j < cbn:
                        rb["results"].append(list(cb.compute_jth_prefix_of_permutations_with_copies(
                            q, (cs_arg if isinstance(cs_arg, int) else list(cs_arg)), b_len, j, memo)))
            except Exception as e:
                ra["meta"]["raised"] = "%s at j=%d: %s" % (type(e).__name__, j, str(e)[:100])
            cases.append(ra)
            cases.append(rb)
    # larger random tuples: membership and injectivity on sampled indices only
    nl = 10 if tier == "quick" else 60
    for _ in range(nl):
        n = rng.randrange(7, 12)
        m = rng.randrange(2, n)
        cnt = factorial(n) // factorial(n - m)
        sample = sorted(set(rng.randrange(cnt) for _ in range(60)))
        add("permutation_prefix", {"n": n, "m": m}, cnt, lambda j, n=n, m=m: cb.compute_jth_permutation_prefix(n, m, j),
            exhaustive=False, sample=sample, ident="compute_jth_permutation_prefix n=%d m=%d (sampled)" % (n, m))
        q = rng.randrange(3, 6)
        counters = [rng.randrange(1, 4) for _ in range(q)]
        first_n = rng.randrange(2, sum(counters) + 1)
        memo = cb.PermutationMemo()
        cnt = cb.count_prefixes_of_permutations_with_copies(q, list(counters), first_n, memo)
        sample = sorted(set(rng.randrange(cnt) for _ in range(60)))
        add("prefix_with_copies", {"q": q, "counters": counters, "first_n": first_n}, cnt,
            lambda j, q=q, counters=counters, first_n=first_n, memo=memo:
                cb.compute_jth_prefix_of_permutations_with_copies(q, list(counters), first_n, j, memo),
            exhaustive=False, sample=sample, ident="prefix_with_copies counters=%s first_n=%d (sampled)" % (counters, first_n))
    return cases


def c13(tier, seed):
    t0 = time.time()
    rng = random.Random(seed)
    out, stats, err = [], {"states": 0, "transitions": 0}, None
    cases = comb_cases(tier, rng)
    for c in cases:
        if "raised" in c["meta"]:
            out.append(violation("C13", "raised", {"id": c["meta"]["id"], "params": c["params"]}, detail=c["meta"]["raised"],
                                 fn=c["kind"]))
    good = [c for c in cases if "raised" not in c["meta"]]
    try:
        for i in range(0, len(good), 150):
            chunk = good[i:i + 150]
            path = tlc.write_cases([{k: v for k, v in c.items() if k != "meta"} for c in chunk], "comb")
            try:
                r = tlc.run("Combinatorics.tla", "Combinatorics.cfg", env={"VERIF_CASES": path}, tags=("U",), timeout=1500)
            finally:
                os.unlink(path)
            stats["states"] += r.distinct
            stats["transitions"] += r.states
            seen = set()
            for rec in r.records:
                seen.add(rec[1])
                if rec[2] != "ok":
                    c = chunk[rec[1] - 1]
                    out.append(violation("C13", "unrank", {"id": c["meta"]["id"], "params": c["params"]}, verdict=rec[2],
                                         index=rec[3], reported_count=c["count"], arrangements=rec[4], fn=c["kind"],
                                         result=(c["results"][rec[3]] if rec[3] < len(c["results"]) else None)))
            if len(seen) != len(chunk):
                raise tlc.TLCError("missing verdicts: %d of %d" % (len(seen), len(chunk)))
    except tlc.TLCError as e:
        err = str(e)[:1500]
    cov = {"evaluations": sum(len(c["results"]) for c in good), "distinct_nontrivial": sum(1 for c in good if c["count"] > 1),
           "states": stats["states"], "transitions": stats["transitions"],
           "traces_validated_against_impl": len(good),
           "rule": "every parameter tuple up to the bound for extract_components, compute_jth_combination(_without_replacement), "
                   "compute_jth_permutation_prefix, compute_jth_prefix_of_permutations_with_copies (uniform and per-element "
                   "counters) and the full multiset-permutation constructors: all indices 0..N-1 are unranked by the real "
                   "functions and replayed into the enumerator machine of Combinatorics.tla; larger random tuples are sampled "
                   "(membership + injectivity); non-trivial = N > 1",
           "samples": [{k: v for k, v in good[len(good) // 2].items() if k != "meta"}], "exhaustive": True}
    return common.finish("C13", tier, seed, "model_checking", out, cov, t0, machinery_error=err)


def c05(tier, seed):
    import json
    import export
    import gen
    import gen_blocks
    import impl
    from checks_design import Coverage, canon, batches, select_cases
    t0 = time.time()
    cov, out, err = Coverage(), [], None
    try:
        rng = random.Random(seed)
        cases = gen.systematic_flat() + gen.systematic_corner() + gen.random_flat(rng, 20 if tier == "quick" else 300)
        cases += [c for c in gen_blocks.systematic_blocks() + gen_blocks.weighted_blocks() if "Nest" not in c["tags"]]
        cases += gen.weighted_cases(rng, 10 if tier == "quick" else 150)
        cases += common.witness_cases("C05")
        maxl = 500 if tier == "quick" else 12000
        for batch in batches(cases, 250):
            obs = impl.run_tasks([(c, [{"op": "drawtree", "max_leaves": maxl, "timeout": 20 if tier == "quick" else 600}]) for c in batch],
                                 op_timeout=45 if tier == "quick" else 700)
            lcases, lmap = [], []
            for c, o in zip(batch, obs):
                cov.evaluations += 1
                if not o or o[0].get("status") != "built" or len(o) < 2:
                    continue
                d = o[1]
                if d.get("status") == "raised":
                    out.append(violation("C05", "raised", c, strategy="RandomGen", exc=d.get("exc"), site=d.get("site"),
                                         op="drawtree", detail=d.get("msg")))
                    continue
                if d.get("status") != "returned" or d["truncated"] or not d["leaves"]:
                    cov.notes["trees_too_large"] = cov.notes.get("trees_too_large", 0) + 1
                    continue
                den = 1
                big = False
                for lf in d["leaves"]:
                    p = 1
                    for n, v in lf["draws"]:
                        p *= n
                    if p > 2000000:
                        big = True
                if big:
                    cov.notes["denominators_too_large"] = cov.notes.get("denominators_too_large", 0) + 1
                    continue
                lcases.append({"leaves": d["leaves"]})
                lmap.append((c, d))
            if not lcases:
                continue
            # accepted leaves are valid sequences, and all valid sequences have an accepted leaf: Design specification
            tcases = []
            for (c, d) in lmap:
                acc = [lf["seq"] for lf in d["leaves"] if lf["acc"]]
                tcases.append(export.tlc_case(c, impl=acc, traces=[{"n": len(s), "s": s, "hidden": []} for s in acc], enum=True))
            path = tlc.write_cases(tcases, "c05")
            tr = tlc.run_with_norm("MCTrace.tla", "MCTrace.cfg", path, timeout=1500)
            er = tlc.run_with_norm("MCEnum.tla", "MCEnum.cfg", path, env={"VERIF_PRUNE": "1"}, timeout=1500)
            os.unlink(path)
            cov.stats["states"] = cov.stats.get("states", 0) + tr.distinct + er.distinct
            cov.stats["transitions"] = cov.stats.get("transitions", 0) + tr.states + er.states
            # multiplicity of every accepted sequence (R11) comes from the Design specification
            for rec in tr.records:
                if rec[0] == "V":
                    c, d = lmap[rec[1] - 1]
                    accl = [lf for lf in d["leaves"] if lf["acc"]]
                    accl[rec[2] - 1]["mult"] = rec[4] if rec[3] == "ok" else 1
            for lc in lcases:
                for lf in lc["leaves"]:
                    lf.setdefault("mult", 1)
            path = tlc.write_cases(lcases, "tree")
            try:
                r = tlc.run("RandomLoop.tla", "RandomLoop.cfg", env={"VERIF_CASES": path}, tags=("TREE", "UNIF"), timeout=1500)
            finally:
                os.unlink(path)
            cov.stats["states"] += r.distinct
            cov.stats["transitions"] += r.states
            unif = {}
            for rec in r.records:
                if rec[0] == "TREE":
                    c, d = lmap[rec[1] - 1]
                    out.append(violation("C05", "tree", c, verdict=rec[3], depth=rec[2]))
                else:
                    unif[rec[1]] = rec
            bad = {}
            for rec in tr.records:
                if rec[0] == "V" and rec[3] != "ok":
                    bad.setdefault(rec[1], rec[3])
            miss = {}
            for rec in er.records:
                if rec[0] == "MISSING":
                    miss.setdefault(rec[1], []).append(rec[2])
            for i, (c, d) in enumerate(lmap):
                u = unif.get(i + 1)
                if u is None:
                    raise tlc.TLCError("no UNIF record")
                nacc = u[3]
                cov.stats["traces"] = cov.stats.get("traces", 0) + len(d["leaves"])
                if u[2] != "ok":
                    out.append(violation("C05", "uniformity", c, verdict=u[2], accepted=nacc, leaves=u[4]))
                if i + 1 in bad:
                    out.append(violation("C05", "invalid", c, strategy="RandomGen", verdict=bad[i + 1], accepted=nacc))
                if i + 1 in miss:
                    out.append(violation("C05", "missing", c, strategy="RandomGen", count=len(miss[i + 1]), accepted=nacc,
                                         example=miss[i + 1][0]))
                if nacc > 1:
                    cov.nontrivial.add(canon(c))
                    cov.sample({"case": common.brief_case(c), "leaves": u[4], "accepted": nacc, "one_leaf": d["leaves"][0]})
    except tlc.TLCError as e:
        err = str(e)[:2000]
    return common.finish("C05", tier, seed, "model_checking", out, cov.as_dict(
        "the complete tree of random.randrange outcomes of RandomGen's first candidate (real sampler, scripted source) for every "
        "design whose tree has at most %d leaves; RandomLoop.tla replays every path (well-formed tree: same range, all values), "
        "then judges the accepted leaves: one per sequence, equal total probability; MCTrace/MCEnum: accepted sequences = valid "
        "sequences; non-trivial = more than one accepted leaf" % (500 if tier == "quick" else 12000)), t0, machinery_error=err)


CHECKS = {"C13": c13, "C05": c05}
