"""Tier C: designs composed with Repeat / MultiCrossBlock / Merge / Nest (IR data only)."""
import copy
import random

from gen import basic, derived, eq_table, cross, K, case, is_complex


def rep(block, cons=()):
    return {"op": "Repeat", "block": block, "cons": list(cons)}


def multi(design, crossings, cons=(), rcc=True, mode="equal", align="equal"):
    return {"op": "Multi", "design": list(design), "crossings": [list(x) for x in crossings], "cons": list(cons),
            "rcc": rcc, "mode": mode, "align": align}


def merge(blocks, cons=(), mode="repeat", align=None):
    return {"op": "Merge", "blocks": list(blocks), "cons": list(cons), "mode": mode, "align": align}


def nest(outer, inner, cons=()):
    return {"op": "Nest", "outer": outer, "inner": inner, "cons": list(cons)}


def base_factors():
    F = [basic("a", 2), basic("b", 2), basic("c", 3)]
    F.append(derived(F, "ra", [1], "transition", table=eq_table(F, [1], 2)))      # 4: repeat of a
    F.append(derived(F, "ab", [1, 2], "within", table=eq_table(F, [1, 2])))        # 5: a = b
    return F


def placements(fid_run, fid_free):
    """the same constraint kinds to be placed inside the block or on the combinator"""
    return [
        ("AtMost1", K("AtMostKInARow", k=1, f=fid_run, l=1)),
        ("AtMost2f", K("AtMostKInARow", k=2, f=fid_run, l=0)),
        ("AtLeast2", K("AtLeastKInARow", k=2, f=fid_run, l=1)),
        ("ExRow2", K("ExactlyKInARow", k=2, f=fid_run, l=1)),
        ("ExK1", K("ExactlyK", k=1, f=fid_free, l=1)),
        ("ExK2", K("ExactlyK", k=2, f=fid_free, l=2)),
        ("Pin0", K("Pin", i=0, f=fid_free, l=1)),
        ("Pin-1", K("Pin", i=-1, f=fid_free, l=2)),
        ("Pin2", K("Pin", i=2, f=fid_free, l=1)),
    ]


def systematic_blocks():
    out = []
    F = base_factors()
    # --- C24 laws with fresh objects on both sides
    inner = cross([1, 2], [1, 2])
    out.append(case(F, rep(inner, []), "C", ["Repeat", "law-repeat-empty"], "blk-repeat-empty"))
    out.append(case(F, merge([inner], [], "repeat", "equal"), "C", ["Merge", "law-merge-single"], "blk-merge-single"))
    for m in (8, 12):
        out.append(case(F, rep(inner, [K("MinimumTrials", k=m)]), "C", ["Repeat", "MinimumTrials"], "blk-repeat-min%d" % m))
        out.append(case(F, merge([inner], [K("MinimumTrials", k=m)], "repeat", "equal"), "C", ["Merge", "law-repeat"], "blk-merge-rep-min%d" % m))
    # --- C26: every constraint kind inside vs outside, Repeat without preamble (a crossed, c free)
    for name, k in placements(1, 3):
        b_in = cross([1, 2, 3] if k["f"] == 3 else [1, 2], [1, 2], [k])
        b_plain = cross([1, 2, 3] if k["f"] == 3 else [1, 2], [1, 2], [])
        if k["f"] == 3:
            b_in = cross([1, 3], [1], [k, K("MinimumTrials", k=4)])
            b_plain = cross([1, 3], [1], [K("MinimumTrials", k=4)])
        out.append(case(F, rep(b_in, [K("MinimumTrials", k=8)]), "C", ["Repeat", "inner", name], "blk-rep-in-%s" % name))
        out.append(case(F, rep(b_plain, [K("MinimumTrials", k=8), k]), "C", ["Repeat", "outer", name], "blk-rep-out-%s" % name))
    # --- trailing partial repetition (MinimumTrials not a multiple of the inner length) under run-length constraints:
    #     the last window is shorter than the others, down to shorter than k
    for m in (5, 6, 7):
        for name, k in placements(1, 3)[:4]:
            out.append(case(F, rep(cross([1, 2], [1, 2], [k]), [K("MinimumTrials", k=m)]), "C",
                            ["Repeat", "partial-last", "inner", name], "blk-rep-part%d-in-%s" % (m, name)))
    # Pin (also counted from the end) given to a block whose last repetition is cut short
    for m in (5, 6, 7):
        for nm, k in (("Pin-1a", K("Pin", i=-1, f=1, l=2)), ("Pin-2a", K("Pin", i=-2, f=1, l=1)), ("Pin-3a", K("Pin", i=-3, f=1, l=1)),
                      ("Pin1a", K("Pin", i=1, f=1, l=1)), ("Pin3a", K("Pin", i=3, f=1, l=2))):
            out.append(case(F, rep(cross([1, 2], [1, 2], [k]), [K("MinimumTrials", k=m)]), "C",
                            ["Repeat", "partial-last", "inner", "Pin", nm], "blk-rep-part%d-in-%s" % (m, nm)))
    for name, k in placements(1, 3)[:4]:
        out.append(case(F, rep(cross([1, 2], [1, 2]), [K("MinimumTrials", k=6), k]), "C",
                        ["Repeat", "partial-last", "outer", name], "blk-rep-part6-out-%s" % name))
    # --- Repeat with a preamble (crossed transition): windows overlap by the preamble
    pre_in = cross([1, 4], [1, 4], [K("AtMostKInARow", k=2, f=1, l=1)])
    pre_plain = cross([1, 4], [1, 4], [])
    out.append(case(F, rep(pre_plain, [K("MinimumTrials", k=9)]), "C", ["Repeat", "preamble"], "blk-rep-pre"))
    out.append(case(F, rep(pre_in, [K("MinimumTrials", k=9)]), "C", ["Repeat", "preamble", "inner", "AtMost2"], "blk-rep-pre-in"))
    out.append(case(F, rep(pre_plain, [K("MinimumTrials", k=9), K("AtMostKInARow", k=2, f=1, l=1)]), "C",
                    ["Repeat", "preamble", "outer", "AtMost2"], "blk-rep-pre-out"))
    for name, k in placements(1, 1)[:4] + [("ExK2a", K("ExactlyK", k=2, f=1, l=1)), ("Pin0a", K("Pin", i=0, f=1, l=1)),
                                           ("Pin1a", K("Pin", i=1, f=1, l=2)), ("Pin-1a", K("Pin", i=-1, f=1, l=2))]:
        out.append(case(F, rep(cross([1, 4], [1, 4], [k]), [K("MinimumTrials", k=9)]), "C",
                        ["Repeat", "preamble", "inner", name], "blk-rep-pre-in-%s" % name))
        out.append(case(F, rep(cross([1, 4], [1, 4], []), [K("MinimumTrials", k=9), k]), "C",
                        ["Repeat", "preamble", "outer", name], "blk-rep-pre-out-%s" % name))
    # --- MultiCrossBlock and its Merge equivalent, all modes x alignments
    for mode in ("weight", "repeat"):
        d = [1, 2, 3]
        xs = [[1, 2], [3]]
        out.append(case(F, multi(d, xs, [], True, mode, "equal"), "C", ["Multi", mode], "blk-multi-%s" % mode))
        out.append(case(F, merge([cross(d, x) for x in xs], [], mode, "equal"), "C", ["Merge", "law-multi", mode], "blk-multi-%s-merge" % mode))
        out.append(case(F, multi(d, xs, [K("AtMostKInARow", k=1, f=3, l=0)], True, mode, "equal"), "C",
                        ["Multi", mode, "AtMost1"], "blk-multi-%s-atmost" % mode))
        out.append(case(F, multi(d, xs, [K("MinimumTrials", k=6)], True, mode, "equal"), "C",
                        ["Multi", mode, "MinimumTrials"], "blk-multi-%s-min6" % mode))
    out.append(case(F, multi([1, 2], [[1], [2]], [], True, "equal", "equal"), "C", ["Multi", "equal"], "blk-multi-equal"))
    for mode in ("weight", "repeat"):
        for al in ("post", "parallel"):
            d = [1, 2, 4]
            xs = [[1, 4], [2]]
            out.append(case(F, multi(d, xs, [], True, mode, al), "C", ["Multi", mode, al, "preamble"], "blk-multi-%s-%s" % (mode, al)))
    # --- Merge of blocks with their own constraints, different lengths
    b1 = cross([1, 2], [1, 2], [K("AtMostKInARow", k=1, f=1, l=1)])
    b2 = cross([3], [3], [])
    for mode in ("weight", "repeat"):
        out.append(case(F, merge([b1, b2], [], mode, "equal"), "C", ["Merge", mode, "inner", "AtMost1"], "blk-merge-%s-in" % mode))
        out.append(case(F, merge([cross([1, 2], [1, 2]), b2], [K("AtMostKInARow", k=1, f=1, l=1)], mode, "equal"), "C",
                        ["Merge", mode, "outer", "AtMost1"], "blk-merge-%s-out" % mode))
    # --- Merge where the SHORTER block (repeated / weighted to the common length) carries a window-scoped constraint
    F6 = [basic("a", 4), basic("b", 2), basic("c", 2)]
    long_b = cross([1], [1], [])                           # 4 trials
    for mode in ("repeat", "weight"):
        for name, k in placements(3, 3):
            short_b = cross([3], [3], [k])                 # 2 trials
            out.append(case(F6, merge([long_b, short_b], [], mode, "equal"), "C", ["Merge", mode, "short-inner", name],
                            "blk-merge-%s-short-%s" % (mode, name)))
    # --- Nest
    Fn = [basic("o", 3), basic("i", 2), basic("u", 2), basic("p", 2)]
    ob = cross([1], [1])
    ib = cross([2], [2])
    out.append(case(Fn, nest(ob, ib), "C", ["Nest"], "blk-nest-32"))
    out.append(case(Fn, nest(cross([1, 3], [1]), ib), "C", ["Nest", "outer-uncrossed"], "blk-nest-outer-free"))
    out.append(case(Fn, nest(ob, cross([2, 3], [2])), "C", ["Nest", "inner-uncrossed"], "blk-nest-inner-free"))
    out.append(case(Fn, nest(ob, cross([2], [2], [K("AtMostKInARow", k=1, f=2, l=1)])), "C", ["Nest", "inner", "AtMost1"], "blk-nest-in-atmost"))
    out.append(case(Fn, nest(ob, ib, [K("AtMostKInARow", k=1, f=2, l=1)]), "C", ["Nest", "outer", "AtMost1"], "blk-nest-out-atmost"))
    out.append(case(Fn, nest(cross([1], [1], [K("AtMostKInARow", k=2, f=1, l=1)]), ib), "C", ["Nest", "outerblock", "AtMost2"], "blk-nest-ob-atmost2"))
    out.append(case(Fn, nest(cross([1], [1], [K("Pin", i=0, f=1, l=2)]), ib), "C", ["Nest", "outerblock", "Pin"], "blk-nest-ob-pin0"))
    out.append(case(Fn, nest(cross([1], [1], [K("Pin", i=-1, f=1, l=2)]), ib), "C", ["Nest", "outerblock", "Pin"], "blk-nest-ob-pin-1"))
    out.append(case(Fn, nest(cross([1, 3], [1], [K("ExactlyK", k=1, f=3, l=1)]), ib), "C", ["Nest", "outerblock", "ExactlyK"], "blk-nest-ob-exk"))
    out.append(case(Fn, nest(cross([1], [1], [K("Sequential", f=1)]), ib), "C", ["Nest", "outerblock", "Sequential"], "blk-nest-ob-seq"))
    out.append(case(Fn, nest(cross([1], [1], [K("MinimumTrials", k=4)]), ib), "C", ["Nest", "outerblock", "MinimumTrials"], "blk-nest-ob-min4"))
    out.append(case(Fn, nest(ob, cross([2], [2], [K("MinimumTrials", k=3)])), "C", ["Nest", "inner", "MinimumTrials"], "blk-nest-in-min3"))
    # Nest with an implied (uncrossed, unconstrained) derived factor in the outer / inner block (FX20)
    Fn3 = [basic("o", 2), basic("i", 2), basic("u", 2)]
    Fn3.append(derived(Fn3, "ou", [1, 3], "within", table=eq_table(Fn3, [1, 3])))
    Fn3.append(derived(Fn3, "iu", [2, 3], "within", table=eq_table(Fn3, [2, 3])))
    out.append(case(Fn3, nest(cross([1, 3, 4], [1]), cross([2], [2])), "C", ["Nest", "implied-derived", "outer"], "blk-nest-implied-outer"))
    out.append(case(Fn3, nest(cross([1], [1]), cross([2, 3, 5], [2])), "C", ["Nest", "implied-derived", "inner"], "blk-nest-implied-inner"))
    out.append(case(Fn3, nest(cross([1, 3, 4], [1], [K("AtMostKInARow", k=2, f=4, l=1)]), cross([2], [2])), "C",
                    ["Nest", "constrained-derived", "outer"], "blk-nest-derived-outer-atmost"))
    out.append(case(Fn3, nest(cross([1, 3, 4], [1, 4]), cross([2], [2])), "C", ["Nest", "outer-crossed-derived", "uncrossed-source"],
                    "blk-nest-outer-x-derived"))
    out.append(case(Fn3, nest(cross([1], [1]), cross([2, 3, 5], [2, 5])), "C", ["Nest", "inner-crossed-derived", "uncrossed-source"],
                    "blk-nest-inner-x-derived"))
    out.append(case(Fn3, nest(cross([1, 3, 4], [4]), cross([2], [2])), "C", ["Nest", "outer-crossed-derived-alone"],
                    "blk-nest-outer-x-derived-alone"))
    # Nest whose inner block has a preamble, under the alignments that allow it (the last sustained group is cut short, FX26)
    Np = [basic("o", 2), basic("i", 2), basic("j", 2)]
    Np.append(derived(Np, "ri", [2], "transition", table=eq_table(Np, [2], 2)))
    for al in ("post", "parallel"):
        out.append(case(Np, nest(cross([1], [1]), multi([2, 4], [[2, 4]], [], True, "equal", al)), "C",
                        ["Nest", "inner-preamble", al], "blk-nest-inner-pre-%s" % al))
        out.append(case(Np, nest(multi([1], [[1]], [], True, "equal", al), multi([2, 3, 4], [[2, 4], [3]], [], True, "repeat", al)), "C",
                        ["Nest", "inner-preamble", "inner-multi", al], "blk-nest-inner-pre-multi-%s" % al))
    Fn2 = [basic("o", 2), basic("m", 2), basic("i", 2)]
    out.append(case(Fn2, nest(nest(cross([1], [1]), cross([2], [2])), cross([3], [3])), "C", ["Nest", "nested-left"], "blk-nest-left"))
    out.append(case(Fn2, nest(cross([1], [1]), nest(cross([2], [2]), cross([3], [3]))), "C", ["Nest", "nested-right"], "blk-nest-right"))
    out.append(case(Fn2, nest(multi([1, 2], [[1], [2]]), cross([3], [3])), "C", ["Nest", "outer-multi"], "blk-nest-outer-multi"))
    # constraints of the innermost OUTER block under two levels of nesting: their geometry is stretched twice
    Fn4 = [basic("o", 3), basic("m", 2), basic("i", 2)]
    for nm, k in (("pin1", K("Pin", i=1, f=1, l=1)), ("pin-2", K("Pin", i=-2, f=1, l=2)), ("pin0", K("Pin", i=0, f=1, l=3)),
                  ("atmost1", K("AtMostKInARow", k=1, f=1, l=1)), ("exk1", K("ExactlyK", k=1, f=1, l=1))):
        out.append(case(Fn4, nest(nest(cross([1], [1], [k]), cross([2], [2])), cross([3], [3])), "C",
                        ["Nest", "nested-left", "outerblock", nm], "blk-nest-left-ob-%s" % nm))
    out.append(case(Fn4, nest(cross([1], [1], [K("Pin", i=1, f=1, l=1)]), nest(cross([2], [2]), cross([3], [3]))), "C",
                    ["Nest", "nested-right", "outerblock", "pin1"], "blk-nest-right-ob-pin1"))
    out.append(case(Fn4, nest(nest(cross([1], [1]), cross([2], [2], [K("Pin", i=1, f=2, l=1)])), cross([3], [3])), "C",
                    ["Nest", "nested-left", "middle-block", "pin1"], "blk-nest-left-mid-pin1"))
    return out


def random_blocks(rng, n):
    out = []
    tries = 0
    while len(out) < n and tries < n * 40:
        tries += 1
        F = base_factors()
        kind = rng.choice(["Repeat", "Repeat", "Multi", "Merge", "Nest", "Nest"])
        cons_pool = placements(rng.choice([1, 2]), 3)
        pick = lambda: copy.deepcopy(rng.choice(cons_pool)[1])
        if kind == "Repeat":
            withpre = rng.random() < 0.3
            if withpre:
                d, x = [1, 4, 3], [1, 4]
                n_in, p = 5, 1
            else:
                d, x = ([1, 2, 3], [1, 2]) if rng.random() < 0.5 else ([1, 3], [1])
                n_in, p = (4, 0) if len(x) == 2 else (2, 0)
            icons = [pick() for _ in range(rng.choice([0, 1, 1]))]
            icons = [k for k in icons if k["f"] in d]
            ocons = [pick() for _ in range(rng.choice([0, 1]))]
            ocons = [k for k in ocons if k["f"] in d]
            reps = rng.choice([2, 2, 3])
            m = p + reps * (n_in - p)
            if rng.random() < 0.25:
                m -= rng.randrange(1, n_in - p)     # trailing partial repetition
            if m > 10:
                continue
            blk = rep(cross(d, x, icons), [K("MinimumTrials", k=m)] + ocons)
            tags = ["Repeat"] + (["preamble"] if withpre else []) + [k["c"] for k in icons + ocons]
        elif kind == "Multi":
            mode = rng.choice(["weight", "repeat"])
            if rng.random() < 0.4:
                d, xs = [1, 2, 4], [[1, 4], [2]]
                al = rng.choice(["post", "parallel"])
            else:
                d, xs = [1, 2, 3], rng.choice([[[1, 2], [3]], [[1], [3]], [[3], [1, 2]]])
                al = "equal"
            cs = [pick() for _ in range(rng.choice([0, 1, 1]))]
            cs = [k for k in cs if k["f"] in d]
            blk = multi(d, xs, cs, True, mode, al)
            tags = ["Multi", mode, al] + [k["c"] for k in cs]
        elif kind == "Merge":
            mode = rng.choice(["weight", "repeat"])
            c1 = [pick() for _ in range(rng.choice([0, 1]))]
            c1 = [k for k in c1 if k["f"] in (1, 2)]
            oc = [pick() for _ in range(rng.choice([0, 1]))]
            blk = merge([cross([1, 2], [1, 2], c1), cross([3], [3], [])], oc, mode, "equal")
            tags = ["Merge", mode] + [k["c"] for k in c1 + oc]
        else:
            Fn = [basic("o", rng.choice([2, 3])), basic("i", 2), basic("u", 2)]
            F = Fn
            pool = [K("AtMostKInARow", k=1, f=2, l=1), K("AtMostKInARow", k=2, f=1, l=1), K("Pin", i=0, f=1, l=1),
                    K("Pin", i=-1, f=2, l=2), K("ExactlyK", k=1, f=3, l=1), K("AtMostKInARow", k=1, f=3, l=1)]
            oc = [copy.deepcopy(rng.choice(pool)) for _ in range(rng.choice([0, 1]))]
            oc = [k for k in oc if k["f"] in (1, 3)]
            ic = [copy.deepcopy(rng.choice(pool)) for _ in range(rng.choice([0, 1]))]
            ic = [k for k in ic if k["f"] == 2]
            nc = [copy.deepcopy(rng.choice(pool)) for _ in range(rng.choice([0, 1]))]
            od = [1, 3] if rng.random() < 0.5 else [1]
            oc = [k for k in oc if k["f"] in od]
            nc = [k for k in nc if k["f"] in od + [2]]
            blk = nest(cross(od, [1], oc), cross([2], [2], ic), nc)
            tags = ["Nest"] + [k["c"] for k in oc + ic + nc]
        out.append(case(F, blk, "C", sorted(set(tags)), "rblk-%d" % len(out)))
    return out


# ---------------------------------------------------------------------------------------------
# C24: pairs (lhs, rhs) of blocks that the API documentation declares equivalent; both sides are
# built from FRESH objects (separate cases).

def law_pairs(rng=None, n_random=0):
    F = base_factors()
    pairs = []

    def add(name, lhs, rhs, Fx=None):
        pairs.append((name, case(Fx or F, lhs, "C", ["law", name], "law-%s-lhs" % name),
                      case(Fx or F, rhs, "C", ["law", name], "law-%s-rhs" % name)))

    cons_pool = [[], [K("AtMostKInARow", k=1, f=3, l=0)], [K("MinimumTrials", k=6)], [K("Pin", i=0, f=3, l=2)],
                 [K("ExactlyK", k=2, f=3, l=1)], [K("AtMostKInARow", k=1, f=1, l=1), K("MinimumTrials", k=5)]]
    # MultiCrossBlock(d, Xs, cs, rcc, mode, al) == Merge([CrossBlock(d, X, [], rcc) ...], cs, mode, al)
    i = 0
    for mode in ("weight", "repeat"):
        for d, xs, al in [([1, 2, 3], [[1, 2], [3]], "equal"), ([1, 2, 3], [[3], [1]], "equal"),
                          ([1, 2, 4], [[1, 4], [2]], "post"), ([1, 2, 4], [[1, 4], [2]], "parallel"),
                          ([1, 2, 3, 4], [[1, 4], [3]], "parallel")]:
            for cs in cons_pool:
                if any(k.get("f", 0) not in d + [0] for k in cs):
                    continue
                i += 1
                add("multi-%d-%s-%s" % (i, mode, al), multi(d, xs, cs, True, mode, al),
                    merge([cross(d, x, [], True) for x in xs], cs, mode, al))
    add("multi-equal", multi([1, 2], [[1], [2]], [], True, "equal", "equal"),
        merge([cross([1, 2], [1]), cross([1, 2], [2])], [], "equal", "equal"))
    # Repeat(b, cs) == Merge([b], cs, REPEAT, EQUAL_PREAMBLE); Repeat(b, []) == b; Merge([b]) == b
    blocks = [cross([1, 2], [1, 2]), cross([1, 2, 3], [1, 2], [K("AtMostKInARow", k=1, f=3, l=1)]),
              cross([1, 3], [1], [K("MinimumTrials", k=4), K("ExactlyK", k=1, f=3, l=1)]),
              cross([1, 4], [1, 4], [K("AtMostKInARow", k=2, f=1, l=1)]),
              cross([1, 2], [1, 2], [K("MinimumTrials", k=6)]),
              multi([1, 2, 3], [[1, 2], [3]], [], True, "weight", "equal")]
    for bi, b in enumerate(blocks):
        add("repeat-empty-%d" % bi, rep(copy.deepcopy(b), []), copy.deepcopy(b))
        add("merge-single-%d" % bi, merge([copy.deepcopy(b)], [], "repeat", None), copy.deepcopy(b))
        for ci, cs in enumerate([[K("MinimumTrials", k=8)], [K("MinimumTrials", k=9), K("AtMostKInARow", k=2, f=1, l=2)],
                                 [K("MinimumTrials", k=7)]]):
            add("repeat-%d-%d" % (bi, ci), rep(copy.deepcopy(b), cs), merge([copy.deepcopy(b)], cs, "repeat", "equal"))
    # CrossBlock(d, X, cs) == MultiCrossBlock(d, [X], cs) in WEIGHT mode
    for ci, (d, x, cs) in enumerate([([1, 2], [1, 2], []), ([1, 2, 3], [1, 2], [K("MinimumTrials", k=6)]),
                                      ([1, 2, 4], [1, 4], [K("AtMostKInARow", k=1, f=2, l=1)]),
                                      ([1, 3], [3], [K("MinimumTrials", k=5), K("Pin", i=-1, f=1, l=1)])]):
        add("cross-multi-%d" % ci, cross(d, x, cs), multi(d, [x], cs, True, "weight", "equal"))
    return pairs


def weighted_blocks():
    """weights and combinators: a weighted factor in some but not all crossings, weighted factors under Repeat / Nest"""
    out = []
    F = [basic("a", 2, [2, 1]), basic("b", 2), basic("c", 2, [1, 2])]
    for mode in ("weight", "repeat"):
        out.append(case(F, multi([1, 2, 3], [[1], [2]], [], True, mode, "equal"), "C", ["weights", "Multi", mode, "weighted-in-one-crossing"], "wblk-multi-%s-a" % mode))
        out.append(case(F, multi([1, 2, 3], [[2], [1]], [], True, mode, "equal"), "C", ["weights", "Multi", mode, "weighted-in-one-crossing"], "wblk-multi-%s-b" % mode))
    out.append(case(F, rep(cross([1, 2], [1]), [K("MinimumTrials", k=6)]), "C", ["weights", "Repeat"], "wblk-repeat-crossed"))
    # a weighted crossed level with a trailing partial round whose length lies between the smallest and the largest weight
    for m in (4, 5, 8):
        out.append(case(F, rep(cross([1, 2], [1]), [K("MinimumTrials", k=m)]), "C", ["weights", "Repeat", "leftover"],
                        "wblk-repeat-crossed-min%d" % m))
    Fw3 = [basic("a", 3, [3, 1, 2]), basic("b", 2)]
    for m in (8, 9):
        out.append(case(Fw3, rep(cross([1], [1]), [K("MinimumTrials", k=m)]), "C", ["weights", "Repeat", "leftover"],
                        "wblk-repeat-w312-min%d" % m))
    out.append(case(F, rep(cross([2, 3], [2]), [K("MinimumTrials", k=4)]), "C", ["weights", "Repeat", "weights-uncrossed"], "wblk-repeat-uncrossed"))
    out.append(case(F, rep(cross([2, 3], [2], [K("AtMostKInARow", k=1, f=3, l=2)]), [K("MinimumTrials", k=4)]), "C",
                    ["weights", "Repeat", "weights-uncrossed", "inner", "AtMost1"], "wblk-repeat-uncrossed-in"))
    out.append(case(F, rep(cross([2, 3], [2]), [K("MinimumTrials", k=4), K("AtMostKInARow", k=1, f=3, l=2)]), "C",
                    ["weights", "Repeat", "weights-uncrossed", "outer", "AtMost1"], "wblk-repeat-uncrossed-out"))
    out.append(case(F, nest(cross([1], [1]), cross([2], [2])), "C", ["weights", "Nest"], "wblk-nest-outer-weighted"))
    out.append(case(F, nest(cross([2], [2]), cross([1], [1])), "C", ["weights", "Nest"], "wblk-nest-inner-weighted"))
    # weighted crossed level + crossed within-trial factor whose other source is free + Repeat with a trailing partial repetition
    Fq = [basic("a", 2, [2, 1]), basic("u", 3)]
    Fq.append(derived(Fq, "au", [1, 2], "within", table=[[[1, 1], [2, 2], [2, 3]], [[1, 2], [1, 3], [2, 1]]]))
    for m in (4, 6, 7, 9, 10):
        out.append(case(Fq, rep(cross([1, 2, 3], [1, 3]), [K("MinimumTrials", k=m)]), "C",
                        ["weights", "Repeat", "crossed-derived", "uncrossed-source", "leftover"], "wblk-repeat-xderived-min%d" % m))
    Fq2 = [basic("a", 2), basic("u", 3)]
    Fq2.append(derived(Fq2, "au", [1, 2], "within", table=[[[1, 1], [2, 2], [2, 3]], [[1, 2], [1, 3], [2, 1]]]))
    for m in (3, 5, 6):
        out.append(case(Fq2, rep(cross([1, 2, 3], [1, 3]), [K("MinimumTrials", k=m)]), "C",
                        ["Repeat", "crossed-derived", "uncrossed-source", "leftover"], "wblk-repeat-xderived-plain-min%d" % m))
        out.append(case(Fq2, cross([1, 2, 3], [1, 3], [K("MinimumTrials", k=m)]), "C",
                        ["crossed-derived", "uncrossed-source", "MinimumTrials"], "wblk-cross-xderived-plain-min%d" % m))
    # a weighted DERIVED level alone in the crossing, its sources free (several completions per combination), repeated with a
    # trailing partial repetition as long as the number of distinct combinations
    Fl = [basic("color", 2), basic("size", 2)]
    Fl.append(derived(Fl, "look", [1, 2], "within", table=[[[1, 1]], [[1, 2], [2, 1], [2, 2]]], w=[1, 2]))
    for m in (3, 4, 5):
        out.append(case(Fl, rep(cross([1, 2, 3], [3]), [K("MinimumTrials", k=m)]), "C",
                        ["weights", "weighted-derived-level", "Repeat", "leftover"], "wblk-repeat-look-min%d" % m))
        out.append(case(Fl, cross([1, 2, 3], [3], [K("MinimumTrials", k=m)]), "C",
                        ["weights", "weighted-derived-level", "MinimumTrials"], "wblk-cross-look-min%d" % m))
    # a weighted factor that is in NO crossing (desugared into a hidden pair of factors) inside Merge / Nest
    F4 = F + [basic("d", 2)]
    out.append(case(F4, merge([cross([2, 3], [2]), cross([4], [4])], [], "repeat", "equal"), "C",
                    ["weights", "Merge", "weights-uncrossed"], "wblk-merge-uncrossed"))
    out.append(case(F4, merge([cross([2, 3], [2], [K("AtMostKInARow", k=1, f=3, l=2)]), cross([4], [4])], [K("MinimumTrials", k=4)], "repeat", "equal"), "C",
                    ["weights", "Merge", "weights-uncrossed", "inner", "AtMost1"], "wblk-merge-uncrossed-in"))
    out.append(case(F4, nest(cross([2], [2]), cross([4, 3], [4])), "C", ["weights", "Nest", "weights-uncrossed"], "wblk-nest-inner-uncrossed"))
    out.append(case(F4, nest(cross([2, 3], [2]), cross([4], [4])), "C", ["weights", "Nest", "weights-uncrossed"], "wblk-nest-outer-uncrossed"))
    return out
