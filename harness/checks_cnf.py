"""C10 C11 C12 (and C03): clause-level properties judged by TLC's own DPLL (spec/Cnf.tla, MCGadget.tla)."""
import itertools
import os
import random
import sys
import time

import common
import tlc
from common import violation

REPO = os.environ.get("VERIF_REPO", "/repo")
if REPO not in sys.path:
    sys.path.insert(0, REPO)


def _imports():
    from sweetpea._internal.core.cnf import CNF, Var, Clause
    from sweetpea._internal.core.generate.utility import GenerationRequest, AssertionType, combine_cnf_with_requests
    return CNF, Var, Clause, GenerationRequest, AssertionType, combine_cnf_with_requests


def clauses_of(cnf):
    return [[int(v) for v in cl] for cl in cnf]


def run_gadgets(prop, cases, stats, workers=16, timeout=1500):
    """cases: list of TLC gadget records (with 'meta').  Returns list of (case, bitsint, verdict) for BAD records."""
    bad = []
    for i in range(0, len(cases), 400):
        chunk = cases[i:i + 400]
        path = tlc.write_cases([{k: v for k, v in c.items() if k != "meta"} for c in chunk], "gadget")
        try:
            r = tlc.run("MCGadget.tla", "MCGadget.cfg", env={"VERIF_CASES": path}, workers=workers, timeout=timeout, tags=("BAD",))
        finally:
            os.unlink(path)
        stats["states"] = stats.get("states", 0) + r.distinct
        stats["transitions"] = stats.get("transitions", 0) + r.states
        for rec in r.records:
            bad.append((chunk[rec[1] - 1], rec[2], rec[3]))
    return bad


# ---------------------------------------------------------------------------------------------
# C10

def card_case(reqs, nvars_declared, initial=None, ident=""):
    """reqs: list of (rel, k, [vars]); records combine_cnf_with_requests' clauses (observed from the real function)"""
    CNF, Var, Clause, GenerationRequest, AssertionType, combine = _imports()
    init = CNF(initial) if initial else CNF()
    greqs = [GenerationRequest(AssertionType[rel], k, [Var(v) for v in vs]) for rel, k, vs in reqs]
    try:
        cnf = combine(init, nvars_declared, nvars_declared, greqs)
    except Exception as e:
        return {"meta": {"id": ident, "reqs": reqs, "raised": type(e).__name__, "msg": str(e)[:200]}}
    cls = clauses_of(cnf)
    inputs = sorted(set(v for _, _, vs in reqs for v in vs) | set(abs(l) for cl in (initial or []) for l in cl))
    nv = max([nvars_declared] + [abs(l) for cl in cls for l in cl])
    return {"kind": "card", "nv": nv, "clauses": cls, "order": inputs,
            "reqs": [{"rel": rel, "k": k, "vars": list(vs)} for rel, k, vs in reqs],
            "initial": [list(c) for c in (initial or [])],
            "meta": {"id": ident, "reqs": reqs, "declared": nvars_declared}}


def c10(tier, seed):
    t0 = time.time()
    rng = random.Random(seed)
    N = 5 if tier == "quick" else 7
    cases = []
    for n in range(1, N + 1):
        for k in range(0, n + 3):
            for rel in ("EQ", "LT", "GT"):
                cases.append(card_case([(rel, k, list(range(1, n + 1)))], n, ident="%s n=%d k=%d" % (rel, n, k)))
    # non-contiguous variable ids, fresh range above them
    for n in (2, 3, 4):
        vs = [2 * i + 1 for i in range(n)]
        for k in range(0, n + 1):
            for rel in ("EQ", "LT", "GT"):
                cases.append(card_case([(rel, k, vs)], 2 * n, ident="%s sparse n=%d k=%d" % (rel, n, k)))
    # sequences of requests over ONE variable list in one call (a band, an exact count plus a bound, k of growing and of
    # shrinking bit width, three requests): later requests must not depend on what earlier ones built
    for n in ((4, 5) if tier == "quick" else (3, 4, 5, 6, 7)):
        allv = list(range(1, n + 1))
        for (r1, k1) in (("LT", 2), ("GT", 1), ("EQ", 1), ("GT", 0), ("LT", n)):
            for (r2, k2) in (("LT", n), ("GT", n - 1), ("EQ", 2), ("EQ", n - 1), ("LT", 1), ("GT", 0)):
                cases.append(card_case([(r1, k1, allv), (r2, k2, allv)], n, ident="same list n=%d %s%d then %s%d" % (n, r1, k1, r2, k2)))
        cases.append(card_case([("GT", 0, allv), ("LT", n, allv), ("EQ", 2, allv)], n, ident="same list n=%d three requests" % n))
        cases.append(card_case([("LT", 2, allv), ("LT", 2, list(reversed(allv)))], n, ident="same set n=%d reversed order" % n))
    # two requests sharing variables; a non-empty initial CNF
    m = 12 if tier == "quick" else 80
    for _ in range(m):
        n = rng.randrange(2, 5)
        allv = list(range(1, n + 1))
        reqs = []
        for _ in range(2):
            vs = sorted(rng.sample(allv, rng.randrange(1, n + 1)))
            reqs.append((rng.choice(["EQ", "LT", "GT"]), rng.randrange(0, len(vs) + 1), vs))
        initial = [[rng.choice([1, -1]) * v for v in rng.sample(allv, 2)]] if rng.random() < 0.5 and n >= 2 else None
        cases.append(card_case(reqs, n, initial, ident="two requests %s" % (reqs,)))
    out = []
    stats = {}
    good = [c for c in cases if "kind" in c]
    for c in cases:
        if "kind" not in c:
            out.append(violation("C10", "raised", {"id": c["meta"]["id"], "reqs": c["meta"]["reqs"]},
                                 exc=c["meta"]["raised"], detail=c["meta"]["msg"], rel=c["meta"]["reqs"][0][0],
                                 n=len(c["meta"]["reqs"][0][2]), k=c["meta"]["reqs"][0][1]))
    err = None
    try:
        bad = run_gadgets("C10", good, stats)
    except tlc.TLCError as e:
        bad, err = [], str(e)[:1500]
    seen = set()
    for c, bitsint, verdict in bad:
        key = c["meta"]["id"]
        if key in seen:
            continue
        seen.add(key)
        r0 = c["meta"]["reqs"][0]
        out.append(violation("C10", "encoding", {"id": key, "reqs": c["meta"]["reqs"], "clauses": c["clauses"]},
                             verdict=verdict, assignment=bitsint, rel=r0[0], n=len(r0[2]), k=r0[1],
                             nreqs=len(c["meta"]["reqs"])))
    cov = {"evaluations": stats.get("states", 0), "distinct_nontrivial": len(good), "states": stats.get("states", 0),
           "transitions": stats.get("transitions", 0), "traces_validated_against_impl": len(good),
           "rule": "one gadget instance per (relation, n, k) for n<=%d, k<=n+2, plus sparse variable ids, pairs of requests "
                   "sharing variables and non-empty initial CNFs; clause lists recorded from combine_cnf_with_requests are "
                   "replayed into MCGadget, which visits all 2^n input assignments; distinct_nontrivial = gadget instances" % N,
           "samples": [{k: v for k, v in good[len(good) // 2].items() if k != "meta"}], "exhaustive": True}
    return common.finish("C10", tier, seed, "model_checking", out, cov, t0,
                         assumptions=["TLC evaluates Cnf.tla faithfully", "clause lists are read with CNF.__iter__"], machinery_error=err)


# ---------------------------------------------------------------------------------------------
# C12

def circuit_cases(tier):
    CNF, Var, Clause, *_ = _imports()
    cases = []

    def rec(gate, cnf, nin, xs, ys, cin, outs, sat, ident):
        cls = clauses_of(cnf)
        nv = max([cnf._num_vars] + [abs(l) for cl in cls for l in cl])
        cases.append({"kind": "circuit", "gate": gate, "nv": nv, "clauses": cls, "order": list(range(1, nin + 1)),
                      "xs": [int(v) for v in xs], "ys": [int(v) for v in ys], "cin": [int(v) for v in cin],
                      "outs": [int(v) for v in outs], "sat": sat, "meta": {"id": ident}})

    c = CNF.from_fresh(2)
    (co, s) = c.half_adder(Var(1), Var(2))
    rec("half", c, 2, [1], [2], [], [co, s], 0, "half_adder")
    c = CNF.from_fresh(3)
    (co, s) = c.full_adder(Var(1), Var(2), Var(3))
    rec("full", c, 3, [1], [2], [3], [co, s], 0, "full_adder with carry")
    c = CNF.from_fresh(2)
    (co, s) = c.full_adder(Var(1), Var(2), None)
    rec("full", c, 2, [1], [2], [], [co, s], 0, "full_adder without carry")
    W = 3 if tier == "quick" else 4
    for w in range(1, W + 1):
        c = CNF.from_fresh(2 * w)
        xs = [Var(i) for i in range(1, w + 1)]
        ys = [Var(i) for i in range(w + 1, 2 * w + 1)]
        (carry, ss) = c.ripple_carry(xs, ys)
        rec("ripple", c, 2 * w, xs, ys, [], [carry] + list(reversed(ss)), 0, "ripple_carry width %d" % w)
        for sat in range(1, W + 2):
            if w > sat:
                continue
            c = CNF.from_fresh(2 * w)
            outs = c.ripple_saturate(xs, ys, sat)
            rec("ripsat", c, 2 * w, xs, ys, [], outs, sat, "ripple_saturate width %d sat %d" % (w, sat))
    N = 7 if tier == "quick" else 9
    for n in range(1, N + 1):
        for sat in range(0, 6):
            c = CNF.from_fresh(n)
            outs = c.pop_count([Var(i) for i in range(1, n + 1)], sat)
            rec("popcount", c, n, [], [], [], outs, sat, "pop_count n=%d saturate_at=%d" % (n, sat))
    return cases


def c12(tier, seed):
    t0 = time.time()
    out, stats, err = [], {}, None
    try:
        cases = circuit_cases(tier)
        bad = run_gadgets("C12", cases, stats)
    except tlc.TLCError as e:
        cases, bad, err = [], [], str(e)[:1500]
    seen = set()
    for c, bitsint, verdict in bad:
        if c["meta"]["id"] in seen:
            continue
        seen.add(c["meta"]["id"])
        out.append(violation("C12", "circuit", {"id": c["meta"]["id"], "gate": c["gate"], "clauses": c["clauses"]},
                             verdict=verdict, assignment=bitsint, gate=c["gate"], sat=c["sat"], nin=len(c["order"])))
    cov = {"evaluations": stats.get("states", 0), "distinct_nontrivial": len(cases), "states": stats.get("states", 0),
           "transitions": stats.get("transitions", 0), "traces_validated_against_impl": len(cases),
           "rule": "half/full adders, ripple_carry and ripple_saturate for all widths and saturation points up to the bound, "
                   "pop_count for n inputs x saturate_at 0..5, built on CNF.from_fresh; MCGadget visits every input assignment "
                   "and compares the unique extension's output bits with the sum (sticky top bit when saturating)",
           "samples": [{k: v for k, v in cases[len(cases) // 2].items() if k != "meta"}] if cases else [],
           "exhaustive": True}
    return common.finish("C12", tier, seed, "model_checking", out, cov, t0,
                         assumptions=["TLC evaluates Cnf.tla faithfully"], machinery_error=err)


# ---------------------------------------------------------------------------------------------
# C11

def _ast_to_py(a):
    from sweetpea._internal.logic import And, Or, Not, If, Iff
    t = a["t"]
    if t == "lit":
        return a["v"]
    if t == "and":
        return And([_ast_to_py(x) for x in a["xs"]])
    if t == "or":
        return Or([_ast_to_py(x) for x in a["xs"]])
    if t == "not":
        return Not(_ast_to_py(a["p"]))
    if t == "if":
        return If(_ast_to_py(a["p"]), _ast_to_py(a["q"]))
    if t == "iff":
        return Iff(_ast_to_py(a["p"]), _ast_to_py(a["q"]))
    raise ValueError(t)


def lit(v):
    return {"t": "lit", "v": v}


def _and_to_clauses(f):
    """format conversion only: And([Or([lit...]) | Not(int) | int ...]) -> list of integer clauses"""
    from sweetpea._internal.logic import And, Or, Not

    def lit_of(x):
        if isinstance(x, int):
            return x
        if isinstance(x, Not) and isinstance(x.c, int):
            return -x.c
        raise ValueError("not a literal: %r" % (x,))
    out = []
    assert isinstance(f, And)
    for o in f.input_list:
        if isinstance(o, Or):
            out.append([lit_of(x) for x in o.input_list])
        else:
            out.append([lit_of(o)])
    return out


def gen_asts(tier, rng):
    """all ASTs of depth <= 2 over literals +-1..+-2 (3 for thorough) with And/Or of arity 0..2, Not, If, Iff
    (systematic, bounded) + seeded random deeper ones with repeated subformulas (Tseitin cache hits)"""
    nv = 2
    lits = [lit(s * v) for v in range(1, nv + 1) for s in (1, -1)]
    d1 = list(lits)
    for op in ("and", "or"):
        d1.append({"t": op, "xs": []})
        for x in lits:
            d1.append({"t": op, "xs": [x]})
        for x, y in itertools.product(lits, lits):
            d1.append({"t": op, "xs": [x, y]})
    for x in lits:
        d1.append({"t": "not", "p": x})
    for op in ("if", "iff"):
        for x, y in itertools.product(lits, lits):
            d1.append({"t": op, "p": x, "q": y})
    out = list(d1)
    pool = d1
    n2 = 300 if tier == "quick" else 3000
    for _ in range(n2):
        op = rng.choice(["and", "or", "not", "if", "iff", "and", "or"])
        if op in ("and", "or"):
            k = rng.choice([1, 2, 2, 3])
            xs = [rng.choice(pool) for _ in range(k)]
            if rng.random() < 0.3 and k >= 2:
                xs[1] = xs[0]           # repeated subformula
            out.append({"t": op, "xs": xs})
        elif op == "not":
            out.append({"t": "not", "p": rng.choice(pool)})
        else:
            p = rng.choice(pool)
            q = p if rng.random() < 0.15 else rng.choice(pool)
            out.append({"t": op, "p": p, "q": q})
    d2 = out[len(d1):]
    n3 = 150 if tier == "quick" else 2000
    pool3 = d2 + d1
    lit3 = [lit(3), lit(-3)]
    for _ in range(n3):
        op = rng.choice(["and", "or", "not", "if", "iff"])
        if op in ("and", "or"):
            xs = [rng.choice(pool3 + lit3) for _ in range(rng.choice([2, 3]))]
            out.append({"t": op, "xs": xs})
        elif op == "not":
            out.append({"t": "not", "p": rng.choice(pool3)})
        else:
            out.append({"t": op, "p": rng.choice(pool3 + lit3), "q": rng.choice(pool3 + lit3)})
    return out


def ast_vars(a):
    t = a["t"]
    if t == "lit":
        return {abs(a["v"])}
    if t in ("and", "or"):
        s = set()
        for x in a["xs"]:
            s |= ast_vars(x)
        return s
    if t == "not":
        return ast_vars(a["p"])
    return ast_vars(a["p"]) | ast_vars(a["q"])


def ast_size(a):
    t = a["t"]
    if t == "lit":
        return 1
    if t in ("and", "or"):
        return 1 + sum(ast_size(x) for x in a["xs"])
    if t == "not":
        return 1 + ast_size(a["p"])
    return 1 + ast_size(a["p"]) + ast_size(a["q"])


def c11(tier, seed):
    from sweetpea._internal.logic import to_cnf_tseitin, to_cnf_naive, to_cnf_switching, cnf_to_json
    t0 = time.time()
    rng = random.Random(seed)
    asts = gen_asts(tier, rng)
    cases, out = [], []
    methods = {"tseitin": to_cnf_tseitin, "naive": to_cnf_naive, "switching": to_cnf_switching}
    raised = 0
    for ai, a in enumerate(asts):
        vs = sorted(ast_vars(a)) or [1]
        fresh_in = rng.choice([max(vs) + 1, max(vs) + 1, max(vs) + 3])
        for mname, fn in methods.items():
            if mname != "tseitin" and ast_size(a) > 14:
                continue        # the naive conversion is exponential
            try:
                (f, fresh_out) = fn(_ast_to_py(a), fresh_in)
                # the Tseitin result goes through the library's own cnf_to_json (part of the property);
                # naive / switching results are conjunctions of Or / Not / literals, read structurally
                cls = cnf_to_json([f]) if mname == "tseitin" else _and_to_clauses(f)
            except Exception as e:
                raised += 1
                out.append(violation("C11", "raised", {"id": "ast-%d" % ai, "ast": a}, method=mname, exc=type(e).__name__,
                                     detail=str(e)[:200]))
                continue
            nv = max([max(vs), fresh_out - 1] + [abs(l) for cl in cls for l in cl])
            cases.append({"kind": "formula", "method": mname, "ast": a, "order": vs, "nv": nv, "clauses": cls,
                          "fresh_in": fresh_in, "fresh_out": fresh_out, "meta": {"id": "ast-%d/%s" % (ai, mname)}})
    stats, err = {}, None
    try:
        bad = run_gadgets("C11", cases, stats)
    except tlc.TLCError as e:
        bad, err = [], str(e)[:1500]
    seen = set()
    for c, bitsint, verdict in bad:
        if c["meta"]["id"] in seen:
            continue
        seen.add(c["meta"]["id"])
        out.append(violation("C11", "conversion", {"id": c["meta"]["id"], "ast": c["ast"], "clauses": c["clauses"],
                                                    "fresh_in": c["fresh_in"], "fresh_out": c["fresh_out"]},
                             method=c["method"], verdict=verdict, assignment=bitsint))
    cov = {"evaluations": stats.get("states", 0), "distinct_nontrivial": len(cases), "states": stats.get("states", 0),
           "transitions": stats.get("transitions", 0), "traces_validated_against_impl": len(cases),
           "rule": "all formulas of depth <= 1 over literals +-1,+-2 (And/Or of arity 0..2, Not, If, Iff) plus seeded random "
                   "depth-2/3 formulas with repeated subformulas; each is converted by the three real functions and the "
                   "recorded clauses are judged by MCGadget for every assignment of the original variables",
           "samples": [{k: v for k, v in cases[len(cases) // 3].items() if k != "meta"}] if cases else [],
           "formulas": len(asts), "exhaustive": False}
    return common.finish("C11", tier, seed, "model_checking", out, cov, t0,
                         assumptions=["TLC evaluates Cnf.tla faithfully"], machinery_error=err)


def c03(tier, seed):
    import json
    import export
    import gen
    import gen_blocks
    import impl
    from checks_design import Coverage, canon, batches
    t0 = time.time()
    cov, out, err = Coverage(), [], None
    try:
        rng = random.Random(seed)
        pool = gen.systematic_flat() + gen.systematic_corner() + gen_blocks.systematic_blocks() + gen.random_flat(rng, 40 if tier == "quick" else 400, max_T=6)
        pool += common.witness_cases("C03")
        obs = impl.run_tasks([(c, [{"op": "cnf"}]) for c in pool], op_timeout=60)
        maxv, maxc = (260, 1100) if tier == "quick" else (700, 4000)
        sel = []
        for c, o in zip(pool, obs):
            if len(o) < 2 or o[0].get("status") != "built" or o[1].get("status") != "returned":
                continue
            d = o[1]
            if d["errors"] or d["maxvar"] > maxv or len(d["clauses"]) > maxc or d["support"] > (36 if tier == "quick" else 60):
                continue
            sel.append((c, d))
        limit = 36 if tier == "quick" else 400
        rng.shuffle(sel)
        sel = sorted(sel[:limit], key=lambda x: x[0]["id"])
        for i in range(0, len(sel), 30):
            chunk = sel[i:i + 30]
            mcases = [{"nv": max(d["maxvar"], d["declared"], d["support"]), "clauses": d["clauses"], "support": d["support"]} for c, d in chunk]
            path = tlc.write_cases(mcases, "models")
            try:
                r = tlc.run("MCModels.tla", "MCModels.cfg", env={"VERIF_CASES": path}, tags=("MODEL", "UNMENTIONED"), timeout=2400)
            finally:
                os.unlink(path)
            cov.stats["states"] = cov.stats.get("states", 0) + r.distinct
            cov.stats["transitions"] = cov.stats.get("transitions", 0) + r.states
            models = {}
            for rec in r.records:
                if rec[0] == "MODEL":
                    models.setdefault(rec[1], []).append((rec[2], sorted(rec[3]["set"])))
                else:
                    c, d = chunk[rec[1] - 1]
                    out.append(violation("C03", "unmentioned", c, variables=sorted(rec[2]["set"])[:10], declared=d["declared"],
                                         detail="variables inside the declared range occur in no clause"))
            # decode every model with the library's decoder
            tasks = [(c, [{"op": "decode", "models": [m for _, m in models.get(k + 1, [])][:3000]}]) for k, (c, d) in enumerate(chunk)]
            dobs = impl.run_tasks(tasks, op_timeout=120)
            tcases = []
            keep = []
            for k, ((c, d), o) in enumerate(zip(chunk, dobs)):
                cov.evaluations += 1
                if len(o) < 2 or o[1].get("status") != "returned":
                    continue
                exps = o[1]["exps"]
                ms = models.get(k + 1, [])
                if len(ms) > 3000:
                    cov.notes["too_many_models"] = cov.notes.get("too_many_models", 0) + 1
                    continue
                for (n, m), e in zip(ms, exps):
                    if n != 1:
                        out.append(violation("C03", "models", c, count=n, detail="a trial sequence has more than one satisfying "
                                             "assignment of the complete formula (an auxiliary variable is not determined)",
                                             example=e["s"]))
                        break
                seqs = [e["s"] for e in exps if e["n"] >= 0]
                tcases.append(export.tlc_case(c, impl=seqs, traces=exps, enum=True))
                keep.append((c, exps))
            if not tcases:
                continue
            path = tlc.write_cases(tcases, "c03")
            tr = tlc.run_with_norm("MCTrace.tla", "MCTrace.cfg", path, timeout=1500)
            er = tlc.run_with_norm("MCEnum.tla", "MCEnum.cfg", path, env={"VERIF_PRUNE": "1"}, timeout=1500)
            os.unlink(path)
            cov.stats["states"] += tr.distinct + er.distinct
            cov.stats["transitions"] += tr.states + er.states
            mult, badv = {}, {}
            for rec in tr.records:
                if rec[0] == "V":
                    if rec[3] != "ok":
                        badv.setdefault(rec[1], (rec[3], rec[2]))
                    mult[(rec[1], rec[2])] = rec[4]
            miss = {}
            for rec in er.records:
                if rec[0] == "MISSING":
                    miss.setdefault(rec[1], []).append(rec[2])
            for k, (c, exps) in enumerate(keep):
                cov.stats["traces"] = cov.stats.get("traces", 0) + len(exps)
                if k + 1 in badv:
                    v, ei = badv[k + 1]
                    out.append(violation("C03", "invalid", c, verdict=v, detail="a model of the formula decodes to an invalid sequence",
                                         example=exps[ei - 1]["s"]))
                if k + 1 in miss:
                    out.append(violation("C03", "missing", c, count=len(miss[k + 1]), detail="a valid sequence has no model",
                                         example=miss[k + 1][0]))
                # one model per solution: name-level sequences may repeat exactly Mult times (R11)
                seen = {}
                for ei, e in enumerate(exps):
                    seen.setdefault(json.dumps(e["s"]), []).append(ei)
                for key, eis in seen.items():
                    m = mult.get((k + 1, eis[0] + 1), 1)
                    if (k + 1, eis[0] + 1) in mult and badv.get(k + 1) is None and len(eis) != m:
                        out.append(violation("C03", "models", c, count=len(eis), expected=m,
                                             detail="number of models of one trial sequence differs from its multiplicity", example=json.loads(key)))
                        break
                if len(exps) > 1:
                    cov.nontrivial.add(canon(c))
                    cov.sample({"case": common.brief_case(c), "models": len(exps), "first_model_decoded": exps[0]["s"]})
    except tlc.TLCError as e:
        err = str(e)[:2000]
    return common.finish("C03", tier, seed, "model_checking", out, cov.as_dict(
        "build_cnf(block) for designs whose formula has at most %d variables; MCModels runs DPLL over the trial-sequence variables "
        "and counts, for every consistent assignment of them, the extensions to the auxiliary variables (must be exactly 1); the "
        "models are decoded by the library and go through MCTrace (model => valid sequence) and MCEnum (valid sequence => model); "
        "variables of the declared range that occur in no clause are reported; non-trivial = more than one model" % (260 if tier == "quick" else 700)),
        t0, machinery_error=err)


CHECKS = {"C10": c10, "C11": c11, "C12": c12, "C03": c03}
