"""Regenerate /verif/MANIFEST.json from the check registry and the per-property descriptions below."""
import json
import os
import sys

HERE = os.path.dirname(os.path.abspath(__file__))
sys.path.insert(0, HERE)
ROOT = os.path.dirname(HERE)

DESC = {
 "C01": ("Trace validation: every sequence returned by the formula-based samplers on systematic + seeded random designs (flat and composed) is replayed step by step through the TLA+ Design specification (MCTrace), whose verdict names the failing clause; the trial count and block arithmetic come from Blocks.tla. Large designs (9-24 trials): TLC simulates the Design generator, the accepted behaviours and their perturbations are pinned in the compiled formula (is_cnf_still_sat): satisfiable => MCTrace verdict ok.", "6/C01"),
 "C02": ("Set equality with the specification: IterateSATGen is exhausted; every returned sequence is validated by MCTrace (soundness) and TLC enumerates ALL behaviours of the Design generator and reports each accepted sequence the implementation did not return (MCEnum, completeness); duplicates are counted. Large designs (9-24 trials): behaviours produced by TLC simulation of the same generator must be satisfiable when pinned in the compiled formula.", "6/C02"),
 "C03": ("TLC enumerates the models of the complete compiled formula: DPLL over the trial-sequence variables as a state machine (MCModels over Cnf.tla) and, for every consistent assignment of them, a count of the extensions to the auxiliary variables (must be 1); the models are decoded by the library and checked against Design.tla in both directions (model => valid sequence, valid sequence => model, multiplicity = Mult).", "6/C03"),
 "C05": ("The complete tree of random draws of RandomGen's first candidate is explored with the real sampler and a scripted random source; RandomLoop.tla replays every path (well-formed tree) and judges the accepted leaves: exactly Mult(seq) accepted candidates per valid sequence, equal probability per solution; accepted set = valid set by MCTrace/MCEnum.", "6/C05"),
 "C04": ("Trace validation of RandomGen output (class and instance, several requested counts) against the Design specification, including designs of 9-24 trials; in addition RandomGen(1) and RandomGen(2) output is validated against Design!VerdictErr (the documented acceptable-error relaxation).", "6/C04"),
 "C06": ("RandomGen exhausted under a watchdog: set equality with the specification's valid set (MCTrace + MCEnum), distinctness, the reported solution count for rejection-free single-round designs, and the size of RandomGen's key space against the valid count established by IterateSATGen + MCEnum for rejection-free designs (a wrong count makes it stop early or never).", "6/C06"),
 "C07": ("Both samplers exhausted; TLC (MCAgree) compares the two sets and prints every sequence that is in only one of them; independent of the Design specification.", "6/C07"),
 "C08": ("Every design the constructors accept is synthesized with IterateSATGen, RandomGen, CMSGen and UniGen in crash-tolerant worker processes; an exception (or a dying process) is a violation unless documented.", "6/C08"),
 "C09": ("Two phases: exhaust to establish (via MCTrace+MCEnum; the count proved for one sampler is the count every sampler has to deliver) how many solutions exist, then request 0, 1, avail-1, avail, avail+5 sequences and compare counts with min(requested, available); distinctness up to the specification's multiplicity Mult (weighted uncrossed levels).", "6/C09"),
 "C10": ("Clause lists recorded from combine_cnf_with_requests for every (relation, n, k) up to the bound are judged by TLC: MCGadget enumerates all 2^n assignments and a DPLL counter written in TLA+ (Cnf.tla) decides whether exactly one / no extension to the auxiliary variables exists, against the arithmetic definition of the relation.", "6/C10"),
 "C11": ("Formulas (systematic depth<=1, seeded random depth 2-3 with shared subformulas) are converted by the three real functions; TLC evaluates the formula (Eval) and counts the CNF's extensions for every assignment of the original variables; fresh-variable ranges are checked.", "6/C11"),
 "C13": ("For every parameter tuple up to the bound each unranking function is called on all indices 0..N-1; the recorded results are replayed into the enumerator machine of Combinatorics.tla, where the arrangement sets are defined declaratively: every result is an arrangement, none repeats, none is missing, N equals the cardinality; one PermutationMemo is also driven through histories of different prefix lengths (descending, ascending, zigzag, interleaved).", "6/C13"),
 "C23": ("Weighted designs: quota scaling for crossed factors (CrossOK) and copies-as-distinct-solutions for uncrossed non-derived factors (Design!Mult): both samplers exhausted, each valid name-level sequence must be returned exactly Mult times.", "6/C23"),
 "C27": ("Bytes written for the solvers, clause lists recovered by the library's two parsers, parsed solver output and the file before/after the blocking clause are judged by byte-level DIMACS readers written in TLA+ (Text.tla, MCText).", "6/C27"),
 "C28": ("OPB bytes are parsed by Text!ParseOpb and, for all assignments of the variables, pseudo-Boolean satisfaction is compared with the meaning of the clauses and cardinality requests; the appended blocking constraint must exclude exactly the previous solution.", "6/C28"),
 "C12": ("Adder and population-count clause builders for all widths up to the bound: for every input assignment TLC's DPLL finds the unique extension and compares the output bits with the sum (sticky top bit when saturating).", "6/C12"),
 "C17": ("Specification -> code: for every design, sequences returned by the library and their well-formed perturbations (cell changes, swaps, truncation, extension) are labelled by TLC (MCTrace verdict) and by sample_mismatch_experiment; the labels must coincide in both directions; the same comparison on designs of 9-24 trials with candidates that TLC simulated from the specification.", "6/C17"),
 "C24": ("Each documented law instance is built twice from fresh objects; in Blocks.tla both sides are ONE definition (MultiCrossBlock, Repeat and CrossBlock are defined through Merge), so both exhausted sets are validated/enumerated against the same meaning, and TLC (MCAgree) also compares the two recorded sets directly.", "6/C24"),
 "C25": ("Nest designs (outer/inner free factors, constraints at the three places, nested Nest, outer MultiCrossBlock): exhausted sets of IterateSATGen and RandomGen against rule R8 of Blocks.tla/Design.tla (sustain groups, group-level crossing, stretched outer constraints) by trace validation and exhaustive enumeration.", "6/C25"),
 "C26": ("The same constraint placed in the repeated/merged/nested block and on the combinator for every constraint kind, with preambles and trailing partial repetitions: exhausted sets of both samplers against the repetition windows of rule R6 (Blocks!Windows) by trace validation and exhaustive enumeration.", "6/C26"),
 "C14": ("The table (trial, factor, level) -> variable recorded from the real block is judged by VarMap.tla against the applicability rule of Design.tla (bijection onto 1..variables_per_sample, auxiliary variables above); random one-hot assignments are encoded with the table and Gen.decode must return the chosen levels.", "6/C14"),
 "C15": ("Truth tables covering total, ambiguous and partial derivations (plus ElseLevel, start before/after the default, stride): Blocks!Ambiguous must coincide with the constructor's refusal, Blocks!Partial with an empty result, total ones go through enumeration + trace validation (clauses levels / derived).", "6/C15"),
 "C19": ("TLC generates every call sequence of the API alphabet up to the bound (SessionGen.tla); each is executed on fresh blocks and the recorded events are trace-validated against Session.tla (no call changes the block's abstract state; every synthesis returns with the columns of the first and with min(requested, available) sequences, the availability being the size of the valid set proved on a fresh block); synthesized sequences by MCTrace.", "6/C19"),
 "C20": ("Results of experiments_to_tuples/dicts and the bytes of save_experiments_csv for synthesized and arbitrary experiment lists are judged cell by cell by Output.tla (MCOutput); keys outside the user-declared factors are reported; lists with experiments of different lengths; in addition the bytes print_experiments writes are parsed and compared (MCOutput!JudgePrint).", "6/C20"),
 "C21": ("Captured stdout of tabulate_experiments is parsed byte-wise in TLA+ and every row compared with Output!Freq and the percentage for many factor / trial selections.", "6/C21"),
 "C22": ("Recording CustomDistributions log every call; Continuous.tla replays them (call order, inputs from same-trial dependencies and windows with NaN rules, resampling, returned columns, constraints); built-in distributions: one value per trial and constraints; discrete part by MCTrace.", "6/C22"),
 "C18": ("TLC generates every construction history over block templates that share factor objects, constraint objects, the user's constraint list and the constructors' default list (BuildGen.tla); the last block of each history is built on the shared objects and judged against Design.tla's meaning of the same block built from fresh objects: exhausted sets of both samplers and mismatch verdicts on TLC-labelled candidates.", "6/C18"),
 "C29": ("SMGen outcomes: refusal or sequences replayed through MCTrace; the timer/search interleavings are model-checked on a PlusCal specification (SMGenTimer.tla) and every schedule TLC produces is realised with a fake Timer fired from a second thread, the answers compared with the never-firing schedule.", "6/C29"),
 "C16": ("Blocks.tla states the documented trial-count arithmetic (R1-R8); TLC evaluates it for every generated design and the result is compared with trials_per_sample(); the length clause of MCTrace covers returned sequences of three strategies; constructor refusals must agree with the specification.", "6/C16"),
}
TECH = {
 "C01": "TLA+ trace validation (TLC, MCTrace over Design.tla)",
 "C02": "TLC exhaustive enumeration of Design.tla behaviours + trace validation (set equality)",
 "C03": "TLC model enumeration of the compiled formula (DPLL state machine in TLA+) + Design.tla both directions",
 "C05": "TLC replay of the complete random-draw tree (RandomLoop.tla) + Design.tla for the accepted set",
 "C13": "TLC trace validation of recorded unranking calls against declarative arrangement sets (Combinatorics.tla)",
 "C23": "TLC enumeration + trace validation with multiplicities (Design!Mult)",
 "C27": "TLA+ byte-level DIMACS readers (Text.tla) evaluated by TLC on recorded solver text",
 "C28": "TLA+ OPB reader + exhaustive assignment enumeration by TLC (MCText)",
 "C04": "TLA+ trace validation (TLC, MCTrace over Design.tla)",
 "C06": "TLC exhaustive enumeration of Design.tla behaviours + trace validation (set equality)",
 "C07": "TLC set comparison of two recorded solution sets (MCAgree)",
 "C08": "TLA+ model of accepted designs (Blocks.tla) + outcome observation of every sampler",
 "C09": "TLC enumeration (availability) + trace validation of count/distinctness",
 "C10": "TLC model enumeration of recorded clauses (DPLL in TLA+, Cnf.tla/MCGadget)",
 "C11": "TLC model enumeration of recorded clauses vs TLA+ formula evaluation (MCGadget)",
 "C12": "TLC model enumeration of recorded clauses vs TLA+ arithmetic (MCGadget)",
 "C17": "TLC labels candidate sequences (MCTrace); labels compared with sample_mismatch_experiment",
 "C24": "TLC enumeration + trace validation of both sides against one TLA+ definition; MCAgree set comparison",
 "C25": "TLC enumeration + trace validation against Blocks!NestNB / Design sustain rules",
 "C26": "TLC enumeration + trace validation against Blocks!Windows (per-repetition scoping)",
 "C14": "TLC judges the recorded variable table and decode round trips (VarMap.tla over Design!Applies)",
 "C15": "TLC: Blocks!Ambiguous / Partial vs constructor outcome; enumeration + trace validation for total derivations",
 "C19": "TLC-generated call histories replayed on real blocks + trace validation against Session.tla",
 "C20": "TLC evaluation of Output.tla on recorded conversion results (MCOutput)",
 "C21": "TLA+ byte-level parse of the printed table vs Output!Freq (MCOutput)",
 "C22": "TLA+ trace validation of recorded distribution calls (Continuous.tla)",
 "C18": "TLC-generated construction histories (BuildGen.tla) + enumeration/trace validation against the fresh-object meaning",
 "C29": "TLA+ trace validation of SMGen output + PlusCal model of the timer thread with schedule replay",
 "C16": "TLA+ block arithmetic (Blocks.tla) evaluated by TLC vs recorded trial counts",
}
EXTRA = {}


def main():
    import cli
    reg = cli.registry()
    props = [json.loads(l) for l in open(os.path.join(ROOT, "properties.jsonl"))]
    checks, na = [], []
    na_reasons = {}
    nap = os.path.join(ROOT, "not_applicable.json")
    if os.path.exists(nap):
        na_reasons = json.load(open(nap))
    for p in props:
        pid = p["id"]
        if pid in reg and pid in DESC:
            text, ref = DESC[pid]
            checks.append({
                "property_id": pid,
                "quick_cmd": "./check %s --tier quick" % pid,
                "thorough_cmd": "./check %s --tier thorough" % pid,
                "evidence_file": "/verif/evidence/%s.json" % pid,
                "replay_cmd_template": "./check %s --replay {path}" % pid,
                "engine": "tlc",
                "level_claimed": {"category": "model_checking", "text": text, "design_ref": "DESIGN.md section " + ref},
                "level_note": "Trusted: TLC 1.8 and the CommunityModules Json/IOUtils readers; harness/ir.py (IR -> sweetpea objects) and the JSON encoders; bounds of DESIGN.md sections 3 and 7. The specification's reading decisions are listed in DESIGN.md (READING-n).",
                "technique": TECH[pid],
            })
        else:
            na.append({"property_id": pid, "reason": na_reasons.get(pid, "check not built yet in this round (planned: DESIGN.md section 6)")})
    man = {
        "version": 1,
        "setup_cmd": "cd /verif && ./setup.sh",
        "hooks": {"guard": "SWEETPEA_VERIF", "enable": "checks export SWEETPEA_VERIF=1 and import sweetpea from /repo's working tree (PYTHONPATH); no hook code is needed in /repo so far",
                  "baseline_off_cmd": "cd /repo && /venv/bin/python -m pytest -ra -q -p no:cacheprovider --timeout=900 --continue-on-collection-errors",
                  "source_commits": [], "add_only": True},
        "engines": [{"name": "tlc", "path": "/verif/spec", "serves_properties": [c["property_id"] for c in checks],
                     "kind_free_text": "explicit TLA+ specifications checked with TLC 1.8 (exhaustive enumeration, trace validation, DPLL model counting)"}],
        "checks": checks,
        "notes": "Fix commits in /repo and known findings are listed in /verif/known_findings.json; seeded changes used to test the checks are under /verif/seeded.",
        "not_applicable": na,
    }
    json.dump(man, open(os.path.join(ROOT, "MANIFEST.json"), "w"), indent=1)
    print("checks:", [c["property_id"] for c in checks])
    print("not claimed:", [x["property_id"] for x in na])


if __name__ == "__main__":
    main()
