"""C20 (output conversions) and C21 (tabulation): oracle = Output.tla via MCOutput."""
import os
import random
import time

import common
import gen
import gen_blocks
import impl
import tlc
from checks_design import Coverage, batches, canon, select_cases
from common import violation


def _bytes_map(strings):
    return {s: list(s.encode()) for s in strings}


def _cases_for(tier, seed):
    rng = random.Random(seed)
    cases = [c for c in gen.systematic_flat() + gen.systematic_corner() if c["block"]["op"] == "Cross"]
    rng.shuffle(cases)
    cases = cases[:40 if tier == "quick" else 160] + gen.random_flat(rng, 15 if tier == "quick" else 200)
    cases += [c for c in gen_blocks.systematic_blocks()][:10 if tier == "quick" else 60]
    return cases, rng


def _arbitrary_rows(case, rng, T):
    """a well-formed experiment: any level anywhere (validity is irrelevant for the conversions)"""
    import ir
    ids = ir.design_ids(case["block"])
    rows = []
    for t in range(T):
        row = [0] * len(case["factors"])
        for i in ids:
            row[i - 1] = rng.randrange(1, len(case["factors"][i - 1]["levels"]) + 1)
        rows.append(row)
    return rows


def _single_crossing(case):
    b = case["block"]
    return b["op"] == "Cross"


def _has_named_latin_square(c):
    return False      # the IR's LatinSquare constraints carry no name: the sectioned layout is never produced


def run_output(prop, tier, seed, want_tabs):
    t0 = time.time()
    cov, out, err = Coverage(), [], None
    try:
        cases, rng = _cases_for(tier, seed)
        tasks = []
        for c in cases:
            import ir
            ids = ir.design_ids(c["block"])
            ops = []
            # synthesized experiments and arbitrary ones (0..3 experiments)
            tabs = []
            if want_tabs:
                sel = [i for i in ids]
                for _ in range(3):
                    k = rng.randrange(1, min(3, len(sel)) + 1)
                    fs = sorted(rng.sample(sel, k))
                    tabs.append({"factors": fs, "trials": None})
                    tabs.append({"factors": fs, "trials": "prefix"})
                    tabs.append({"factors": fs, "trials": "random"})
                if _single_crossing(c):
                    tabs.append({"factors": None, "trials": None})
            ops.append({"op": "output", "strategy": "IterateSATGen", "n": 2, "tabs": [dict(t) for t in tabs], "tag": "synth"})
            for nexp in ((0, 1, 3) if not want_tabs else (1, 2)):
                T = rng.randrange(1, 7)
                ops.append({"op": "output", "rows_list": [_arbitrary_rows(c, rng, T) for _ in range(nexp)],
                            "tabs": [dict(t) for t in tabs], "tag": "arbitrary", "T": T})
            if not want_tabs:
                # experiments of DIFFERENT lengths in one list (practice + main blocks concatenated), both orders
                t1, t2 = rng.randrange(1, 4), rng.randrange(4, 7)
                for lens in ((t1, t2), (t2, t1, t1)):
                    ops.append({"op": "output", "rows_list": [_arbitrary_rows(c, rng, t) for t in lens], "tabs": [],
                                "tag": "arbitrary-mixed-lengths", "T": None})
            tasks.append((c, ops))
        # resolve symbolic trial selections once the lengths are known: done in a pre-pass for arbitrary ones
        for c, ops in tasks:
            for op in ops:
                for tb in op["tabs"]:
                    T = op.get("T")
                    if T is None and tb["trials"] in ("prefix", "random"):
                        # synthesized experiments: the length is only known in the worker, which resolves the selection
                        tb["trials"] = {"kind": tb["trials"], "seed": rng.randrange(1 << 30)}
                    elif tb["trials"] == "prefix":
                        tb["trials"] = list(range(0, max(1, T // 2)))
                    elif tb["trials"] == "random":
                        n = T
                        tb["trials"] = [rng.randrange(0, n) for _ in range(rng.randrange(1, n + 2))]     # may repeat indices
        for batch in batches(tasks, 120):
            obs = impl.run_tasks(batch, op_timeout=90)
            tcases, keep = [], []
            for (c, ops), o in zip(batch, obs):
                cov.evaluations += 1
                if not o or o[0].get("status") != "built":
                    continue
                F = c["factors"]
                for op, rec in zip(ops, o[1:]):
                    if rec.get("status") == "raised":
                        out.append(violation(prop, "raised", c, exc=rec.get("exc"), site=rec.get("site"), op="output",
                                             detail=rec.get("msg"), tag=op.get("tag")))
                        continue
                    if rec.get("status") != "returned":
                        continue
                    strings = set(rec["order"])
                    for e in rec["exps"]:
                        for k, v in e.items():
                            strings.add(str(k))
                            strings.update(str(x) for x in v)
                    for f in F:
                        strings.update(f["levels"])
                    bm = _bytes_map(strings)
                    if not want_tabs:
                        if not rec["exps"] and rec["tuples"] == [] and rec["dicts"] == [] and rec["csv"] == []:
                            cov.notes["empty_lists_ok"] = cov.notes.get("empty_lists_ok", 0) + 1
                            continue
                        tcases.append({"kind": "conv", "order": rec["order"], "exps": rec["exps"], "tuples": rec["tuples"],
                                       "dicts": rec["dicts"], "csv": rec["csv"], "bytes": bm, "exposed": rec["exposed"]})
                        keep.append((c, op, rec))
                        if not _has_named_latin_square(c):
                            idx = ["%d:" % k for k in range(len(rec["exps"]))]
                            bm2 = _bytes_map(set(bm.keys()) | set(idx) | {"Experiment", str(len(rec["exps"]))})
                            tcases.append({"kind": "print", "order": rec["order"], "exps": rec["exps"], "stdout": rec["print"],
                                           "bytes": bm2, "idx": idx, "count": str(len(rec["exps"]))})
                            keep.append((c, dict(op, tag=op.get("tag", "") + "/print"), rec))
                    else:
                        for tb in rec["tabs"]:
                            fids = tb["factors"] or c["block"]["crossing"]
                            names = [F[k - 1]["name"] for k in fids]
                            if not rec["exps"]:
                                continue
                            T = len(rec["exps"][0][names[0]])
                            trials = tb["trials"] if tb["trials"] is not None else list(range(T))
                            if any(t >= T for t in trials):
                                continue
                            tcases.append({"kind": "tab", "names": names, "levels": [F[k - 1]["levels"] for k in fids],
                                           "exps": rec["exps"], "trials": trials, "stdout": tb["stdout"], "bytes": bm})
                            keep.append((c, op, tb))
            for i in range(0, len(tcases), 300):
                chunk = tcases[i:i + 300]
                path = tlc.write_cases(chunk, "out")
                try:
                    r = tlc.run("MCOutput.tla", "MCOutput.cfg", env={"VERIF_CASES": path}, tags=("OUT",), timeout=1500)
                finally:
                    os.unlink(path)
                cov.stats["states"] = cov.stats.get("states", 0) + r.distinct
                cov.stats["transitions"] = cov.stats.get("transitions", 0) + r.states
                cov.stats["traces"] = cov.stats.get("traces", 0) + len(chunk)
                for rec in r.records:
                    c, op, obj = keep[i + rec[1] - 1]
                    detail = {"tag": op.get("tag")}
                    if want_tabs:
                        detail.update(factors=obj["factors"], trials=obj["trials"], stdout=bytes(obj["stdout"]).decode()[:400])
                    out.append(violation(prop, "output", c, verdict=rec[2], **detail))
            for (c, op, obj) in keep:
                cov.nontrivial.add(canon(c) + str(op.get("tag")) + str(op.get("T")))
            if keep:
                c, op, obj = keep[0]
                if want_tabs:
                    cov.sample({"case": common.brief_case(c), "factors": obj["factors"], "trials": obj["trials"],
                                "stdout": bytes(obj["stdout"]).decode()[:600]})
                else:
                    cov.sample({"case": common.brief_case(c), "exps": obj["exps"][:1], "tuples": obj["tuples"][:1]})
    except tlc.TLCError as e:
        err = str(e)[:2000]
    return cov, out, err, t0


def c20(tier, seed):
    cov, out, err, t0 = run_output("C20", tier, seed, False)
    return common.finish("C20", tier, seed, "model_checking", out, cov.as_dict(
        "synthesized experiments (IterateSATGen) and arbitrary well-formed experiment lists (0, 1 or 3 experiments of 1-6 trials, "
        "any level anywhere) for flat and composed blocks: results of experiments_to_tuples, experiments_to_dicts and the bytes "
        "of save_experiments_csv are judged by Output.tla (cell by cell, design order, user-declared factors only); keys of "
        "synthesize_trials results that are not user-declared factors are reported"), t0, machinery_error=err)


def c21(tier, seed):
    cov, out, err, t0 = run_output("C21", tier, seed, True)
    return common.finish("C21", tier, seed, "model_checking", out, cov.as_dict(
        "captured stdout of tabulate_experiments for synthesized and arbitrary experiments, every kind of selection (block's "
        "crossing, random subsets of up to 3 factors; all trials, a prefix, random index lists with repetitions): MCOutput parses "
        "the printed table bytes and compares every row with Output!Freq and the percentage (scaled integers)"), t0, machinery_error=err)


CHECKS = {"C20": c20, "C21": c21}
