"""IR case -> the JSON record TLC reads (uniform field sets, no nulls)."""


def tlc_factor(f):
    g = {"kind": f["kind"], "nl": len(f["levels"]), "w": list(f["w"])}
    if f["kind"] == "d":
        g.update(deps=list(f["deps"]), width=f["width"], stride=f["stride"], start=f["start"],
                 acc=[[list(t) for t in a] for a in f["acc"]])
        g["else"] = f.get("else", 0)
    else:
        g.update(deps=[], width=1, stride=1, start=0, acc=[])
        g["else"] = 0
    return g


def tlc_con(k):
    if k["c"] == "Continuous":
        return {"c": "MinimumTrials", "f": 0, "l": 0, "k": 0, "i": 0, "fs": []}     # no meaning for the discrete part
    return {"c": k["c"], "f": k.get("f", 0), "l": k.get("l", 0), "k": k.get("k", 0),
            "i": k.get("i", 0), "fs": list(k.get("fs", []))}


def tlc_block(b):
    op = b["op"]
    cons = [tlc_con(k) for k in b.get("cons", [])]
    if op == "Cross":
        return {"op": op, "design": b["design"], "crossing": b["crossing"], "cons": cons, "rcc": b.get("rcc", True)}
    if op == "Multi":
        return {"op": op, "design": b["design"], "crossings": b["crossings"], "cons": cons,
                "rcc": b.get("rcc", True), "mode": b.get("mode", "equal"), "align": b.get("align", "equal")}
    if op == "Merge":
        return {"op": op, "blocks": [tlc_block(x) for x in b["blocks"]], "cons": cons,
                "mode": b.get("mode", "repeat"), "align": b.get("align") or ""}
    if op == "Repeat":
        return {"op": op, "block": tlc_block(b["block"]), "cons": cons}
    if op == "Nest":
        return {"op": op, "outer": tlc_block(b["outer"]), "inner": tlc_block(b["inner"]), "cons": cons}
    raise ValueError(op)


def tlc_case(case, impl=None, traces=None, enum=True, extra=None):
    """impl: list of row-lists (set the implementation returned when exhausted);
    traces: list of encoded experiments ({n, s, hidden,...}) to validate."""
    rec = {"factors": [tlc_factor(f) for f in case["factors"]],
           "block": tlc_block(case["block"]),
           "impl": impl or [],
           "traces": [{"n": t["n"], "s": t["s"], "hidden": t.get("hidden", []) + t.get("extra", [])}
                      for t in (traces or [])],
           "enum": bool(enum)}
    if extra:
        rec.update(extra)
    return rec
