"""Command interface: ./check <Cxx> [--tier quick|thorough] [--seed N] [--replay path]"""
import argparse
import json
import os
import sys
import traceback

HERE = os.path.dirname(os.path.abspath(__file__))
sys.path.insert(0, HERE)

import common  # noqa: E402


def registry():
    reg = {}
    import checks_design
    reg.update(checks_design.CHECKS)
    for mod in ("checks_blocks", "checks_cnf", "checks_misc", "checks_comb", "checks_session", "checks_text", "checks_output"):
        try:
            m = __import__(mod)
            reg.update(m.CHECKS)
        except ImportError:
            pass
    return reg


def main():
    ap = argparse.ArgumentParser()
    ap.add_argument("prop")
    ap.add_argument("--tier", default=os.environ.get("VERIF_TIER", "quick"), choices=["quick", "thorough"])
    ap.add_argument("--seed", type=int, default=None)
    ap.add_argument("--replay", default=None)
    a = ap.parse_args()
    seed = a.seed if a.seed is not None else common.seed_from_env()
    os.environ["VERIF_TIER_EFFECTIVE"] = a.tier
    reg = registry()
    if a.prop not in reg:
        print("unknown property", a.prop)
        return 2
    if a.replay:
        import replay
        return replay.run(a.prop, a.replay)
    try:
        return reg[a.prop](a.tier, seed)
    except Exception:
        traceback.print_exc()
        print("MACHINERY-ERROR property=%s unhandled exception in the harness" % a.prop)
        return 2


if __name__ == "__main__":
    sys.exit(main())
