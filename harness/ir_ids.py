"""design ids of a block tree (no sweetpea import, usable from common.py)"""


def design_ids(b):
    op = b["op"]
    if op in ("Cross", "Multi"):
        return list(b["design"])
    if op == "Merge":
        out = []
        for x in b["blocks"]:
            for i in design_ids(x):
                if i not in out:
                    out.append(i)
        return out
    if op == "Repeat":
        return design_ids(b["block"])
    if op == "Nest":
        out = design_ids(b["outer"])
        for i in design_ids(b["inner"]):
            if i not in out:
                out.append(i)
        return out
    raise ValueError(op)
