"""Checks whose oracle is the Design/Blocks specification (trial-sequence semantics):
C01 C02 C04 C06 C07 C08 C09 C16 (and the combinator properties in checks_blocks.py reuse the judges)."""
import json
import random
import time

import common
import export
import gen
import gen_blocks
import pipeline
import tlc
from common import violation

SAT = "IterateSATGen"
RND = "RandomGen"


def canon(case):
    return json.dumps({"f": case["factors"], "b": case["block"]}, sort_keys=True)


def select_cases(tier, seed, families=("flat", "blocks"), quick_random=30, thorough_random=500):
    if common.replay_cases():
        return common.replay_cases()
    rng = random.Random(seed)
    cases = []
    n = quick_random if tier == "quick" else thorough_random
    if "flat" in families:
        cases += gen.systematic_flat()
        corner = gen.systematic_corner()
        if tier == "quick":       # the run-length x short-window block is large: a seeded third of it per quick run
            sw = [c for c in corner if "short-window" in c["tags"]]
            rest = [c for c in corner if "short-window" not in c["tags"]]
            corner = rest + random.Random(seed + 1).sample(sw, len(sw) // 3)
        cases += corner
        cases += gen.random_flat(rng, n)
    if "blocks" in families:
        cases += gen_blocks.systematic_blocks()
        cases += gen_blocks.weighted_blocks()
        cases += gen_blocks.random_blocks(rng, n // 2)
    for i, c in enumerate(cases):
        if not c.get("id"):
            c["id"] = "case-%d" % i
    return cases


def batches(cases, size=250):
    for i in range(0, len(cases), size):
        yield cases[i:i + size]


class Coverage:
    def __init__(self):
        self.stats = {}
        self.evaluations = 0
        self.nontrivial = set()
        self.samples = []
        self.by_tag = {}
        self.notes = {}

    def add_case(self, r, nontrivial):
        self.evaluations += 1
        if nontrivial:
            self.nontrivial.add(canon(r.case))
        for t in r.case.get("tags", []):
            self.by_tag[t] = self.by_tag.get(t, 0) + 1

    def sample(self, obj):
        if len(self.samples) < 3:
            self.samples.append(obj)

    def as_dict(self, rule, exhaustive=False):
        d = {"evaluations": self.evaluations, "distinct_nontrivial": len(self.nontrivial), "rule": rule,
             "samples": self.samples, "states": self.stats.get("states", 0),
             "transitions": self.stats.get("transitions", 0),
             "traces_validated_against_impl": self.stats.get("traces", 0),
             "enumerated_sets": self.stats.get("enum_cases", 0),
             "cases_by_tag": self.by_tag, "timing": {k: v for k, v in self.stats.items() if k.startswith("t_")},
             "exhaustive": exhaustive}
        d.update(self.notes)
        return d


def sample_of(r, oi):
    o = r.obs[oi]
    s = {"case": common.brief_case(r.case), "op": {k: o.get(k) for k in ("op", "strategy", "n", "status", "count")},
         "spec": {"NB": r.nb}, "verdicts": (r.verdicts.get(oi) or [])[:3]}
    if o.get("exps"):
        s["first_trace"] = o["exps"][0]["s"]
    return s


# ---------------------------------------------------------------------------------------------
# judges: turn CaseResults into violations for one property

def judge_build(prop, r, out):
    """construction outcome and trial count agree with Blocks.tla (used by C16 and as a guard elsewhere)"""
    b = r.obs[0]
    if b["status"] == "timeout":
        out.append(violation(prop, "timeout", r.case, op="build"))
        return False
    if b["status"] == "rejected":
        if r.nb[0]:
            out.append(violation(prop, "build", r.case, op="build", exc=b.get("exc"), site=b.get("site"),
                                 detail="constructor refused a design the specification accepts: %s" % b.get("msg")))
        return False
    if not r.nb[0]:
        out.append(violation(prop, "build", r.case, op="build", detail="constructor accepted a design the specification refuses (%s)" % r.nb[1]))
        return False
    return True


def judge_sound(prop, r, oi, out):
    """every returned sequence is valid"""
    o = r.obs[oi]
    bad = {}
    for ei, v in enumerate(r.verdicts[oi]):
        if v != "ok":
            bad.setdefault(v, []).append(ei)
    for v, eis in bad.items():
        out.append(violation(prop, "invalid", r.case, strategy=o["strategy"], verdict=v, n=o["n"],
                             count=len(eis), example=o["exps"][eis[0]]["s"]))


def judge_complete(prop, r, oi, out):
    o = r.obs[oi]
    if oi in r.enumerated and r.missing[oi]:
        out.append(violation(prop, "missing", r.case, strategy=o["strategy"], n=o["n"],
                             count=len(r.missing[oi]), returned=o["count"], example=r.missing[oi][0]))


def judge_distinct(prop, r, oi, out):
    """no solution twice: equal name-level sequences may occur at most Mult(seq) times (R11)"""
    o = r.obs[oi]
    seen = {}
    for ei, e in enumerate(o["exps"]):
        key = json.dumps(e["s"])
        seen.setdefault(key, []).append(ei)
    for key, eis in seen.items():
        m = r.mults.get(oi, {}).get(eis[0], 1)
        if r.verdicts[oi][eis[0]] == "ok" and len(eis) > m:
            out.append(violation(prop, "duplicate", r.case, strategy=o["strategy"], n=o["n"],
                                 times=len(eis), allowed=m, example=json.loads(key)))
            break


def partially_crossed_weighted(case):
    """a weighted non-derived factor that is in some but not all crossings: the documentation counts its copies as
    distinct solutions, Design!Mult (like the code) does not - multiplicities are not judged there (DESIGN.md, READING-3)"""
    xs = common._crossings(case["block"])
    if len(xs) < 2:
        return False
    for i, f in enumerate(case["factors"]):
        if f["kind"] == "b" and any(w > 1 for w in f["w"]):
            n = sum(1 for X in xs if (i + 1) in X)
            if 0 < n < len(xs):
                return True
    return False


def judge_mult_exact(prop, r, oi, out):
    """exhausted, uncapped set: every valid sequence is reported exactly Mult(seq) times (R11: a weight-w level of a
    non-derived factor outside the crossings behaves like w distinct copies reported under one name)"""
    o = r.obs[oi]
    if oi not in r.enumerated:
        return
    mults = r.mults
    if partially_crossed_weighted(r.case):
        # READING-3: the documentation's wording is judged for MultiCrossBlock / Merge (known finding KF14); it is silent
        # about weights under Nest, where the multiplicities are not judged
        if any(b["op"] == "Nest" for b in common._all_blocks(r.case["block"])):
            return
        mults = r.mults_doc
    seen = {}
    for ei, e in enumerate(o["exps"]):
        seen.setdefault(json.dumps(e["s"]), []).append(ei)
    for key, eis in seen.items():
        if r.verdicts[oi][eis[0]] != "ok":
            continue
        m = mults.get(oi, {}).get(eis[0], 1)
        if len(eis) != m:
            out.append(violation(prop, "multiplicity", r.case, strategy=o["strategy"], n=o["n"], times=len(eis),
                                 expected=m, example=json.loads(key)))
            return


def judge_unsat(prop, r, oi, out):
    """the specification says the design has no sequences (error reported) -> the sampler returns []"""
    o = r.obs[oi]
    if r.nb[0] and r.nb[2] and o["count"] > 0:
        out.append(violation(prop, "invalid", r.case, strategy=o["strategy"], verdict="design reports an error",
                             n=o["n"], count=o["count"]))


def judge_raised(prop, r, oi, out, documented=()):
    o = r.obs[oi]
    if o["status"] == "raised":
        if any(d in (o.get("msg") or "") for d in documented):
            return
        out.append(violation(prop, "raised", r.case, strategy=o.get("strategy"), exc=o.get("exc"), site=o.get("site"),
                             op=o["op"], n=o.get("n"), detail=o.get("msg")))
    elif o["status"] == "crashed":
        out.append(violation(prop, "raised", r.case, strategy=o.get("strategy"), exc="ProcessDied", site="native",
                             op=o["op"], n=o.get("n"), detail=o.get("msg")))


# ---------------------------------------------------------------------------------------------

def run_prop(prop, tier, seed, ops_fn, judge, families=("flat", "blocks"), rule="", quick_random=30,
             thorough_random=500, level="model_checking", case_filter=None, op_timeout=120, post=None, final=None):
    t0 = time.time()
    cov = Coverage()
    out = []
    err = None
    try:
        cases = select_cases(tier, seed, families, quick_random, thorough_random)
        if case_filter:
            cases = [c for c in cases if case_filter(c)]
        cases += common.witness_cases(prop)        # known findings are re-run on every invocation
        for batch in batches(cases):
            res = pipeline.run_design(batch, ops_fn, stats=cov.stats, op_timeout=op_timeout)
            for r in res:
                judge(r, out, cov)
            if post:
                post(res, out, cov)
        if final:
            final(out, cov)
    except tlc.TLCError as e:
        err = str(e)[:2000]
    if not err and cov.evaluations > 0 and len(cov.nontrivial) < 2 and not common.replay_cases():
        err = "vacuity guard: fewer than 2 non-trivial cases"
    return common.finish(prop, tier, seed, level, out, cov.as_dict(rule), t0,
                         assumptions=["TLC 1.8 evaluates Design.tla/Blocks.tla faithfully",
                                      "harness/ir.py builds the sweetpea objects the IR describes",
                                      "bounded generator space of DESIGN.md section 3"],
                         machinery_error=err)


FORMULA = ["IterateSATGen", "CMSGen", "UniGen", "IterateGen", "UniformGen"]


def c01(tier, seed):
    def ops(c):
        o = [{"op": "synth", "strategy": SAT, "n": 3}, {"op": "synth", "strategy": SAT, "n": 40},
             {"op": "synth", "strategy": "CMSGen", "n": 4}, {"op": "synth", "strategy": "UniGen", "n": 2},
             {"op": "synth", "strategy": "IterateGen", "n": 5}, {"op": "synth", "strategy": "UniformGen", "n": 2}]
        return o

    def judge(r, out, cov):
        if not judge_build("C01", r, []):
            cov.add_case(r, False)
            return
        nt = False
        for oi in range(1, len(r.obs)):
            o = r.obs[oi]
            if o["status"] != "returned":
                continue      # exceptions are C08's subject
            judge_sound("C01", r, oi, out)
            judge_unsat("C01", r, oi, out)
            if o["count"] > 0:
                nt = True
                cov.sample(sample_of(r, oi))
        cov.add_case(r, nt)

    def final(out, cov):
        import checks_large
        checks_large.run_large("C01", tier, seed, out, cov)

    return run_prop("C01", tier, seed, ops, judge, final=final,
                    rule="systematic skeleton + seeded random designs (flat and composed blocks); every sequence returned by "
                         "IterateSATGen/CMSGen/UniGen/IterateGen/UniformGen is replayed through MCTrace; non-trivial = at "
                         "least one sequence was returned and validated; distinct by canonical IR")


def c02(tier, seed):
    def ops(c):
        return [{"op": "synth", "strategy": SAT, "n": pipeline.CAP, "exhaust": True}]

    def judge(r, out, cov):
        if not judge_build("C02", r, []):
            cov.add_case(r, False)
            return
        o = r.obs[1]
        judge_raised("C02", r, 1, out)
        if o["status"] != "returned":
            cov.add_case(r, False)
            return
        judge_sound("C02", r, 1, out)
        judge_unsat("C02", r, 1, out)
        judge_complete("C02", r, 1, out)
        judge_distinct("C02", r, 1, out)
        judge_mult_exact("C02", r, 1, out)
        cov.add_case(r, 1 in r.enumerated and o["count"] > 0)
        if o["count"] > 0:
            cov.sample(sample_of(r, 1))

    def post(res, out, cov):
        # self-check of the specification: with pruning switched OFF, every accepted behaviour of the generator has only
        # viable prefixes (invariant PruneSound) - otherwise MCEnum could silently skip valid sequences
        import os
        small = [r for r in res if r.built and r.nb[0] and not r.nb[2] and r.nb[1] <= 4
                 and sum(1 for f in r.case["factors"] if f["kind"] == "b") <= 2][:12 if tier == "quick" else 80]
        if not small:
            return
        path = tlc.write_cases([export.tlc_case(r.case, enum=True) for r in small], "prune")
        try:
            pr = tlc.run_with_norm("MCEnum.tla", "MCPrune.cfg", path, env={"VERIF_PRUNE": "0"}, timeout=1500, tags=())
        finally:
            os.unlink(path)
        cov.stats["states"] = cov.stats.get("states", 0) + pr.distinct
        cov.stats["transitions"] = cov.stats.get("transitions", 0) + pr.states
        cov.notes["prune_sound_cases"] = cov.notes.get("prune_sound_cases", 0) + len(small)
        if pr.violation:
            raise tlc.TLCError("specification self-check failed: invariant %s violated with pruning off" % pr.violation)

    def final(out, cov):
        import checks_large
        checks_large.run_large("C02", tier, seed, out, cov)

    return run_prop("C02", tier, seed, ops, judge, post=post, final=final,
                    rule="IterateSATGen asked for CAP (600 quick, 1500 thorough) sequences; returned set is validated trace by trace (soundness) and "
                         "compared with the exhaustive enumeration of Design behaviours by MCEnum (completeness) when fewer "
                         "than CAP came back; non-trivial = non-empty exhausted set that went through MCEnum")


def c04(tier, seed):
    def ops(c):
        return [{"op": "synth", "strategy": RND, "n": 1, "timeout": 30}, {"op": "synth", "strategy": RND, "n": 5, "timeout": 30},
                {"op": "synth", "strategy": "RandomGen0", "n": 3, "timeout": 30},
                {"op": "synth", "strategy": RND, "n": 300, "timeout": 30}]

    def judge(r, out, cov):
        if not judge_build("C04", r, []):
            cov.add_case(r, False)
            return
        nt = False
        for oi in range(1, len(r.obs)):
            o = r.obs[oi]
            if o["status"] != "returned":
                continue
            judge_sound("C04", r, oi, out)
            judge_unsat("C04", r, oi, out)
            if o["count"] > 0:
                nt = True
                cov.sample(sample_of(r, oi))
        cov.add_case(r, nt)

    def final(out, cov):
        import checks_large
        checks_large.run_large("C04", tier, seed, out, cov)
        acceptable_error_phase(tier, seed, out, cov)

    return run_prop("C04", tier, seed, ops, judge, final=final,
                    rule="RandomGen (class and RandomGen(0) instance) asked for 1, 5, 3, 300 sequences; every returned sequence "
                         "replayed through MCTrace; non-trivial = at least one sequence returned")


def acceptable_error_phase(tier, seed, out, cov):
    """beyond C04's statement (which fixes the acceptable error at 0): RandomGen(e) for e = 1, 2 on unweighted flat designs
    whose crossing contains a complex-window factor (where the rejection step checks the crossing) - every returned
    sequence satisfies Design!VerdictErr(e): all clauses as documented, at most e duplicated occurrences in the crossings"""
    if common.replay_cases():
        return
    rng = random.Random(seed + 4)
    pool = gen.systematic_flat() + gen.systematic_corner() + gen.random_flat(rng, 40 if tier == "quick" else 400)
    cases = [c for c in pool if c["block"]["op"] == "Cross" and not has_weights(c)
             and any(gen.is_complex(c["factors"], i) for i in c["block"]["crossing"])]
    if tier == "quick":
        cases = cases[:40]
    used = {1: 0, 2: 0}
    total = {1: 0, 2: 0}
    for e in (1, 2):
        res = pipeline.run_design([copy_case(c) for c in cases],
                                  lambda c: [{"op": "synth", "strategy": "RandomGen%d" % e, "n": 12, "timeout": 20}],
                                  stats=cov.stats, do_enum=False, op_timeout=30, err=e, also_strict=True)
        for r in res:
            if not r.built or len(r.obs) < 2 or r.obs[1].get("status") != "returned":
                continue
            bad = {}
            for ei, v in enumerate(r.verdicts[1]):
                total[e] += 1
                if r.strict.get(1, {}).get(ei) not in (None, "ok"):
                    used[e] += 1
                if v != "ok":
                    bad.setdefault(v, []).append(ei)
            for v, eis in bad.items():
                out.append(violation("C04", "invalid", r.case, strategy="RandomGen(%d)" % e, verdict=v, n=12, count=len(eis),
                                     example=r.obs[1]["exps"][eis[0]]["s"], budget=e))
    cov.notes["acceptable_error"] = {"designs": len(cases), "sequences": total, "sequences_using_the_budget": used}


def copy_case(c):
    import copy
    return copy.deepcopy(c)


def rejection_free(case):
    """structural description (no oracle): single flat crossing, no cross-trial constraint, no complex-window factor"""
    b = case["block"]
    outer = []
    if b["op"] == "Repeat" and b["block"]["op"] == "Cross":      # rounds of one flat crossing
        outer = b["cons"]
        b = b["block"]
    if b["op"] != "Cross":
        return False
    if any(gen.is_complex(case["factors"], i) for i in b["design"]):
        return False
    return all(k["c"] in ("MinimumTrials", "Exclude") for k in list(b["cons"]) + list(outer))


def c06(tier, seed):
    def ops(c):
        o = [{"op": "synth", "strategy": RND, "n": pipeline.CAP, "exhaust": True, "timeout": 30},
             {"op": "sample", "strategy": RND, "n": 1, "timeout": 30}]
        if rejection_free(c) and not any(k["c"] == "Exclude" for k in common._all_cons(c["block"])):
            # (an Exclude on the source of a crossed derived factor is enforced by rejection: keys outnumber sequences)
            # the number of valid sequences, established independently of RandomGen (IterateSATGen's exhausted set proved
            # equal to the specification's valid set): without a rejection step every key of RandomGen's key space is one
            # returned sequence, so a key space of another size makes it stop early, repeat itself or never stop
            o.append({"op": "synth", "strategy": SAT, "n": pipeline.CAP, "exhaust": True, "timeout": 60})
            o.append({"op": "rg_keys", "timeout": 30})
        return o

    def judge(r, out, cov):
        if not judge_build("C06", r, []):
            cov.add_case(r, False)
            return
        o = r.obs[1]
        judge_raised("C06", r, 1, out)
        m = r.obs[2] if len(r.obs) > 2 else None
        s = r.obs[3] if len(r.obs) > 3 else None
        kk = r.obs[4] if len(r.obs) > 4 else None
        if (s and s["status"] == "returned" and 3 in r.enumerated and not r.missing[3] and all(v == "ok" for v in r.verdicts[3])
                and kk and kk["status"] == "returned" and kk["keys"] >= 0 and not partially_crossed_weighted(r.case)):
            cov.notes["key_space_checked_vs_spec"] = cov.notes.get("key_space_checked_vs_spec", 0) + 1
            if kk["keys"] != s["count"]:
                out.append(violation("C06", "keyspace", r.case, strategy=RND, keys=kk["keys"], per_round=kk["per_round"],
                                     rounds=kk["rounds"], leftover=kk["leftover"], valid=s["count"],
                                     how="valid set established by IterateSATGen + MCEnum"))
        if o["status"] == "timeout":
            # RandomGen's loop is bounded by possible_keys, which can be astronomically large when most candidates
            # are rejected (sustained factors, LatinSquare): the watchdog result is inconclusive, not a violation
            cov.notes["watchdog_timeouts"] = cov.notes.get("watchdog_timeouts", 0) + 1
        if o["status"] != "returned":
            cov.add_case(r, False)
            return
        judge_sound("C06", r, 1, out)
        judge_unsat("C06", r, 1, out)
        judge_complete("C06", r, 1, out)
        judge_distinct("C06", r, 1, out)
        judge_mult_exact("C06", r, 1, out)
        # reported count for designs that need no rejection step and are a single round
        if (m and m["status"] == "returned" and "solution_count" in m.get("metrics", {}) and rejection_free(r.case)
                and 1 in r.enumerated and not r.missing[1] and all(v == "ok" for v in r.verdicts[1])):
            x = r.nb[3][0] if r.nb[3] else None
            single_round = x is not None and x[2] == 0 and r.nb[1] == x[0] * x[1]
            if single_round and m["metrics"]["solution_count"] != o["count"]:
                out.append(violation("C06", "count", r.case, strategy=RND, reported=m["metrics"]["solution_count"],
                                     valid=o["count"]))
            cov.notes["count_checked"] = cov.notes.get("count_checked", 0) + (1 if single_round else 0)
        cov.add_case(r, 1 in r.enumerated and o["count"] > 0)
        if o["count"] > 0:
            cov.sample(sample_of(r, 1))

    return run_prop("C06", tier, seed, ops, judge,
                    rule="RandomGen asked for CAP sequences under a watchdog; set validated by MCTrace and compared with MCEnum; "
                         "metrics['solution_count'] compared with |Valid| for single-round rejection-free designs; non-trivial = "
                         "non-empty exhausted set that went through MCEnum")


def c07(tier, seed):
    def ops(c):
        return [{"op": "synth", "strategy": SAT, "n": pipeline.CAP}, {"op": "synth", "strategy": RND, "n": pipeline.CAP, "timeout": 30}]

    def judge(r, out, cov):
        pass

    def post(res, out, cov):
        acases, amap = [], []
        for r in res:
            if not r.built:
                cov.add_case(r, False)
                continue
            a, b = r.obs[1], r.obs[2] if len(r.obs) > 2 else None
            both = a["status"] == "returned" and b and b["status"] == "returned" and a["count"] < a["n"] and b["count"] < b["n"]
            cov.add_case(r, bool(both and a["count"] > 0))
            if not both:
                continue
            acases.append({"a": [e["s"] for e in a["exps"]], "b": [e["s"] for e in b["exps"]]})
            amap.append(r)
        if not acases:
            return
        path = tlc.write_cases(acases, "agree")
        ar = tlc.run("MCAgree.tla", "MCAgree.cfg", env={"VERIF_CASES": path}, tags=("DIFF", "SAME"))
        import os
        os.unlink(path)
        cov.stats["states"] = cov.stats.get("states", 0) + ar.distinct
        cov.stats["transitions"] = cov.stats.get("transitions", 0) + ar.states
        diffs = {}
        for rec in ar.records:
            if rec[0] == "DIFF":
                diffs.setdefault(rec[1], []).append(rec)
            elif rec[0] == "SAME" and rec[2] and rec[3] > 0:
                cov.sample({"case": common.brief_case(amap[rec[1] - 1].case), "agree": True, "size": rec[3]})
        for ci, ds in diffs.items():
            r = amap[ci - 1]
            onlya = [d for d in ds if d[2] == "a"]
            onlyb = [d for d in ds if d[2] == "b"]
            out.append(violation("C07", "disagree", r.case, only_sat=len(onlya), only_random=len(onlyb),
                                 sat=r.obs[1]["count"], rnd=r.obs[2]["count"], example=(onlya or onlyb)[0][3]))

    return run_prop("C07", tier, seed, ops, judge, post=post,
                    rule="both strategies exhausted (cap 600 quick, 1500 thorough) on every case both accept; TLC (MCAgree) compares the two sets; "
                         "non-trivial = both returned a non-empty uncapped set")


def c08(tier, seed):
    def ops(c):
        return [{"op": "synth", "strategy": SAT, "n": 2}, {"op": "synth", "strategy": RND, "n": 2, "timeout": 30},
                {"op": "synth", "strategy": "CMSGen", "n": 2}, {"op": "synth", "strategy": "UniGen", "n": 1}]

    def judge(r, out, cov):
        if not r.built:
            cov.add_case(r, False)
            return
        for oi in range(1, len(r.obs)):
            o = r.obs[oi]
            if o["status"] == "raised":
                judge_raised("C08", r, oi, out)
        cov.add_case(r, True)
        cov.sample({"case": common.brief_case(r.case), "outcomes": [(o.get("strategy"), o["status"], o.get("count")) for o in r.obs[1:]]})

    return run_prop("C08", tier, seed, ops, judge, quick_random=60, thorough_random=1500,
                    rule="every constructed design is synthesized with IterateSATGen, RandomGen, CMSGen and UniGen; an exception "
                         "escaping synthesize_trials is a violation (timeouts of the watchdog are reported by C06, not here); "
                         "non-trivial = the block constructor accepted the design")


def c16(tier, seed):
    def ops(c):
        return [{"op": "synth", "strategy": SAT, "n": 2}, {"op": "synth", "strategy": RND, "n": 2, "timeout": 30},
                {"op": "synth", "strategy": "CMSGen", "n": 1}]

    def judge(r, out, cov):
        ok = judge_build("C16", r, out)
        if not ok:
            cov.add_case(r, False)
            return
        b = r.obs[0]
        rccerr = len(r.nb) > 4 and r.nb[4]
        if rccerr:
            # complete crossing required but impossible: the design is an error and has no sequences; the documented
            # arithmetic defines the reduced size only "when complete crossing is not required"
            cov.notes["rcc_error_designs_T_not_compared"] = cov.notes.get("rcc_error_designs_T_not_compared", 0) + 1
        elif b["T"] != r.nb[1]:
            out.append(violation("C16", "T", r.case, impl=b["T"], spec=r.nb[1]))
        for oi in range(1, len(r.obs)):
            o = r.obs[oi]
            if o["status"] != "returned":
                continue
            for ei, v in enumerate(r.verdicts[oi]):
                if v in ("length", "ragged columns"):
                    out.append(violation("C16", "invalid", r.case, strategy=o["strategy"], verdict=v,
                                         got=o["exps"][ei]["n"], spec=r.nb[1]))
                    break
        cov.add_case(r, True)
        cov.sample({"case": common.brief_case(r.case), "impl_T": b["T"], "spec": r.nb})

    return run_prop("C16", tier, seed, ops, judge, quick_random=80, thorough_random=2000,
                    rule="Blocks!Create arithmetic (weighted crossing size, exclusions, preamble, MinimumTrials, max over crossings, "
                         "Repeat/Nest) versus block.trials_per_sample(), and the length clause of MCTrace on sequences from three "
                         "strategies; non-trivial = constructor accepted the design")


def c09(tier, seed):
    """two phases: exhaust to learn how many solutions exist (validated = Valid by E+T), then request counts"""
    t0 = time.time()
    cov = Coverage()
    out = []
    err = None
    try:
        cases = select_cases(tier, seed, ("flat", "blocks"), 20, 300)
        if tier == "quick" and not common.replay_cases():
            always = [c for c in cases if set(c.get("tags", [])) & {"leftover", "crossed-derived", "weighted-derived-level", "preamble2"}]
            rest = [c for c in cases if c not in always]
            cases = always + random.Random(seed + 9).sample(rest, min(len(rest), 120))      # a seeded subset per quick run
        for batch in batches(cases):
            def ops1(c):
                return [{"op": "synth", "strategy": SAT, "n": 400, "exhaust": True},
                        {"op": "synth", "strategy": RND, "n": 400, "exhaust": True, "timeout": 30}]
            res = pipeline.run_design(batch, ops1, stats=cov.stats)
            avail = {}
            for r in res:
                if not r.built:
                    continue
                for oi, name in ((1, SAT), (2, RND)):
                    o = r.obs[oi] if oi < len(r.obs) else None
                    if not o or o["status"] != "returned" or oi not in r.enumerated:
                        continue
                    if r.missing[oi] or any(v != "ok" for v in r.verdicts[oi]):
                        continue        # C02 / C06 report that; availability is not known from this sampler
                    judge_distinct("C09", r, oi, out)
                    avail[(canon(r.case), name)] = o["count"]
                # the number of available sequences is a fact about the design: when one sampler's exhausted set was proved equal
                # to the specification's valid set, that count is what every sampler has to deliver
                known = [avail[(canon(r.case), s)] for s in (SAT, RND) if (canon(r.case), s) in avail]
                if known:
                    for oi, name in ((1, SAT), (2, RND)):
                        o = r.obs[oi] if oi < len(r.obs) else None
                        # ... unless that sampler returned INVALID sequences (then its set is wrong, which C01/C02/C04/C06 report
                        # and known findings such as KF10 explain): only a sampler that delivered too FEW is a counting matter
                        if (o and o["status"] == "returned" and (canon(r.case), name) not in avail
                                and not partially_crossed_weighted(r.case) and all(v == "ok" for v in r.verdicts.get(oi, []))):
                            avail[(canon(r.case), name)] = known[0]
            todo = [r.case for r in res if any((canon(r.case), s) in avail for s in (SAT, RND))]

            def ops2(c):
                o = []
                for s in (SAT, RND, "IterateGen"):
                    a = avail.get((canon(c), s if s != "IterateGen" else SAT))
                    if a is None:
                        continue
                    for n in sorted(set([0, 1, max(a - 1, 0), a, a + 5])):
                        o.append({"op": "synth", "strategy": s, "n": n, "timeout": 30, "avail": a})
                return o
            res2 = pipeline.run_design(todo, ops2, stats=cov.stats, do_enum=False)
            for r in res2:
                ops = ops2(r.case)
                nt = False
                for oi in range(1, len(r.obs)):
                    o, op = r.obs[oi], ops[oi - 1]
                    if o["status"] != "returned":
                        continue
                    want = min(op["n"], op["avail"])
                    if o["count"] != want:
                        out.append(violation("C09", "count", r.case, strategy=o["strategy"], n=op["n"],
                                             available=op["avail"], returned=o["count"]))
                    judge_distinct("C09", r, oi, out)
                    nt = nt or op["avail"] > 1
                cov.add_case(r, nt)
                cov.sample({"case": common.brief_case(r.case),
                            "requests": [(o.get("strategy"), o.get("n"), o.get("count")) for o in r.obs[1:]]})
    except tlc.TLCError as e:
        err = str(e)[:2000]
    return common.finish("C09", tier, seed, "model_checking", out, cov.as_dict(
        "phase 1 exhausts both samplers and keeps the cases where TLC proved the exhausted set equal to the specification's "
        "valid set; phase 2 requests 0, 1, avail-1, avail, avail+5 sequences from IterateSATGen, RandomGen and IterateGen and "
        "compares the count with min(requested, available) and checks distinctness up to Mult (R11); non-trivial = more than "
        "one solution available"), t0, machinery_error=err)


def has_weights(case):
    return any(any(w > 1 for w in f["w"]) for f in case["factors"])


def c23(tier, seed):
    t0 = time.time()
    cov, out, err = Coverage(), [], None
    try:
        rng = random.Random(seed)
        cases = [c for c in gen.systematic_flat() + gen.systematic_corner() if has_weights(c)]
        cases += gen.weighted_cases(rng, 40 if tier == "quick" else 500)
        cases += gen_blocks.weighted_blocks()
        cases += common.witness_cases("C23")
        cases = common.replay_cases() or cases

        def ops(c):
            return [{"op": "synth", "strategy": SAT, "n": pipeline.CAP, "exhaust": True},
                    {"op": "synth", "strategy": RND, "n": pipeline.CAP, "exhaust": True, "timeout": 30}]
        for batch in batches(cases, 200):
            for r in pipeline.run_design(batch, ops, stats=cov.stats):
                if not judge_build("C23", r, out):
                    cov.add_case(r, False)
                    continue
                nt = False
                for oi in (1, 2):
                    if oi >= len(r.obs):
                        continue
                    o = r.obs[oi]
                    judge_raised("C23", r, oi, out)
                    if o["status"] != "returned":
                        continue
                    judge_sound("C23", r, oi, out)      # crossing quotas scale with level weights (R3)
                    judge_unsat("C23", r, oi, out)
                    judge_complete("C23", r, oi, out)
                    judge_mult_exact("C23", r, oi, out)  # uncrossed weights = distinct copies under one name (R11)
                    nt = nt or (oi in r.enumerated and o["count"] > 0)
                cov.add_case(r, nt)
                if nt:
                    s = sample_of(r, 1)
                    s["multiplicities"] = sorted(set(r.mults.get(1, {}).values()))
                    cov.sample(s)
    except tlc.TLCError as e:
        err = str(e)[:2000]
    return common.finish("C23", tier, seed, "model_checking", out, cov.as_dict(
        "designs with level weights on crossed factors (quota scaling in CrossOK, copies not distinct), on non-derived factors "
        "outside the crossing (Design!Mult: each valid name-level sequence must be returned exactly Mult times when the sampler "
        "is exhausted), on derived levels, referenced by derived factors and by constraints, and in some but not all crossings "
        "of a MultiCrossBlock; both samplers exhausted, validated by MCTrace, enumerated by MCEnum"), t0, machinery_error=err)


# SMGen's unsupported-feature errors (smgen.py / scattered_map_core.py _cexit): outside C29's quantifier
SMGEN_REFUSALS = ("not supported by SMGen", "Unsupported level", "are not supported by SMGen", "Unsupported factor",
                  "Unsupported Factor", "Unsupported DerivedLevel")


def c29(tier, seed):
    import os
    import impl
    t0 = time.time()
    cov, out, err = Coverage(), [], None
    try:
        rng = random.Random(seed)
        cases = gen.systematic_flat() + gen.systematic_corner() + gen_blocks.systematic_blocks()
        cases += gen.random_flat(rng, 30 if tier == "quick" else 400)
        cases += gen.smgen_cases(rng, 40 if tier == "quick" else 500)
        cases += common.witness_cases("C29")
        cases = common.replay_cases() or cases

        def ops(c):
            return [{"op": "synth", "strategy": "SMGen", "n": 4, "timeout": 25}, {"op": "synth", "strategy": "SMGen", "n": 1, "timeout": 25}]
        supported = []
        outcomes = {}
        for batch in batches(cases, 250):
            for r in pipeline.run_design(batch, ops, stats=cov.stats, do_enum=False, op_timeout=40):
                if not r.built:
                    cov.add_case(r, False)
                    continue
                nt = False
                for oi in range(1, len(r.obs)):
                    o = r.obs[oi]
                    if o["status"] == "raised":
                        if any(m in (o.get("msg") or "") for m in SMGEN_REFUSALS):
                            outcomes["refused"] = outcomes.get("refused", 0) + 1
                            continue
                        judge_raised("C29", r, oi, out)
                        continue
                    if o["status"] != "returned":
                        outcomes[o["status"]] = outcomes.get(o["status"], 0) + 1     # watchdog: inconclusive
                        continue
                    outcomes["returned"] = outcomes.get("returned", 0) + 1
                    judge_sound("C29", r, oi, out)
                    judge_unsat("C29", r, oi, out)
                    if o["count"] > 0:
                        nt = True
                        if all(v == "ok" for v in r.verdicts[oi]) and oi == 1:
                            supported.append(r.case)
                cov.add_case(r, nt)
                if nt:
                    cov.sample(sample_of(r, 1))
        cov.notes["outcomes"] = outcomes
        # ---- schedules: TLC enumerates the interleavings of the search with the timer thread (SMGenTimer.tla)
        tr = tlc.run("SMGenTimer.tla", "SMGenTimer.cfg", tags=("SCHED",), workers=1, extra=("-deadlock",) if False else ())
        cov.stats["states"] = cov.stats.get("states", 0) + tr.distinct
        cov.stats["transitions"] = cov.stats.get("transitions", 0) + tr.states
        if tr.violation:
            out.append(violation("C29", "model", {"id": "SMGenTimer"}, detail="invariant %s violated in SMGenTimer.tla" % tr.violation))
        steps = 4
        scheds = sorted(set(rec[1] for rec in tr.records))
        points = [[k, steps] for k in scheds if k >= 0]
        sel = supported[:8 if tier == "quick" else 60]
        sobs = impl.run_tasks([(c, [{"op": "smgen_sched", "n": 2, "seed": seed + k, "schedule": points, "timeout": 90}])
                               for k, c in enumerate(sel)], op_timeout=120)
        acases, amap = [], []
        for c, o in zip(sel, sobs):
            if len(o) < 2 or o[1].get("status") != "returned":
                continue
            runs = o[1]["runs"]
            base = runs[0]
            if base["status"] != "returned":
                continue
            for run in runs[1:]:
                cov.stats["traces"] = cov.stats.get("traces", 0) + 1
                if run["status"] != "returned":
                    out.append(violation("C29", "schedule", c, fire_at=run["fire_at"], exc=run.get("exc"),
                                         detail="the search failed when the timer fired at draw %s: %s" % (run["fire_at"], run.get("msg"))))
                    continue
                acases.append({"a": [e["s"] for e in base["exps"]], "b": [e["s"] for e in run["exps"]]})
                amap.append((c, run))
        if acases:
            path = tlc.write_cases(acases, "sched")
            ar = tlc.run("MCAgree.tla", "MCAgree.cfg", env={"VERIF_CASES": path}, tags=("DIFF", "SAME"))
            os.unlink(path)
            cov.stats["states"] += ar.distinct
            cov.stats["transitions"] += ar.states
            seen = set()
            for rec in ar.records:
                if rec[0] == "DIFF" and rec[1] not in seen:
                    seen.add(rec[1])
                    c, run = amap[rec[1] - 1]
                    out.append(violation("C29", "schedule", c, fire_at=run["fire_at"], fired=run["fired"],
                                         detail="answers differ from the run in which the timer never fires"))
            cov.notes["schedules"] = {"points": points, "runs_compared": len(acases),
                                      "handler_exceptions_in_timer_thread": sum(1 for _, run in amap if run.get("thread_exc"))}
    except tlc.TLCError as e:
        err = str(e)[:2000]
    return common.finish("C29", tier, seed, "model_checking", out, cov.as_dict(
        "SMGen on the systematic flat / corner / combinator designs and seeded random designs: an unsupported-feature error is a "
        "refusal, anything returned is replayed through MCTrace (length, levels, derived, crossing with weights, every "
        "constraint); timer schedules: SMGenTimer.tla (PlusCal) is model-checked (TimerHarmless, AnswersOnlyFromSearch) and each "
        "interleaving it produces is realised with a fake Timer fired from a second thread at the k-th draw of the seeded random "
        "source, the answers being compared by TLC (MCAgree) with the schedule in which the timer never fires"), t0, machinery_error=err)


CHECKS = {"C29": c29, "C23": c23, "C01": c01, "C02": c02, "C04": c04, "C06": c06, "C07": c07, "C08": c08, "C09": c09, "C16": c16}
