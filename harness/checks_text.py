"""C27 (DIMACS / solver text) and C28 (OPB export): oracle = byte-level readers of spec/Text.tla (MCText)."""
import itertools
import os
import random
import sys
import tempfile
import time
import types

import common
import tlc
from common import violation

REPO = os.environ.get("VERIF_REPO", "/repo")
if REPO not in sys.path:
    sys.path.insert(0, REPO)


def _b(path):
    with open(path, "rb") as f:
        return list(f.read())


def run_text(cases, stats, timeout=1500):
    bad = []
    for i in range(0, len(cases), 120):
        chunk = cases[i:i + 120]
        path = tlc.write_cases([{k: v for k, v in c.items() if k != "meta"} for c in chunk], "text")
        try:
            r = tlc.run("MCText.tla", "MCText.cfg", env={"VERIF_CASES": path}, tags=("TXT",), timeout=timeout)
        finally:
            os.unlink(path)
        stats["states"] = stats.get("states", 0) + r.distinct
        stats["transitions"] = stats.get("transitions", 0) + r.states
        for rec in r.records:
            bad.append((chunk[rec[1] - 1], rec[2]))
    return bad


def design_cnfs(tier, rng):
    """(CNF pieces as the samplers pass them to combine_and_save_cnf) for a few designs"""
    import gen
    import ir
    out = []
    cases = gen.systematic_flat()
    pick = [c for c in cases if c["id"] in ("sys-x1-plain", "sys-x12-plain", "sys-x14-plain", "sys-x12-within-AtMostK1",
                                            "sys-x12-basic-ExactlyKRow2", "sys-w-x12-min5", "sys-latin-32", "sys-x14-transition-AtMostK1")]
    if tier != "quick":
        pick += rng.sample(cases, 25)
    from sweetpea._internal.core import CNF
    for c in pick:
        with ir.quiet():
            b = ir.build(c).block
            br = b.build_backend_request()
        out.append((c["id"], CNF(br.get_cnfs_as_json()), br.fresh - 1, b.variables_per_sample(), br.get_requests_as_generation_requests()))
    return out


def synthetic_cnfs(tier, rng):
    from sweetpea._internal.core import CNF
    out = []
    n = 25 if tier == "quick" else 200
    for i in range(n):
        nv = rng.randrange(1, 14)
        support = rng.choice([0, 1, nv, min(nv, 3), 10, 11, 21, 25, nv])
        vs = list(range(1, max(nv, support) + 1))
        ncl = rng.randrange(0, 8)
        cls = []
        for _ in range(ncl):
            k = rng.randrange(1, 4)
            cls.append([rng.choice([1, -1]) * v for v in rng.sample(vs, min(k, len(vs)))])
        if rng.random() < 0.3 and cls:
            cls = [[l * 2 if abs(l) * 2 <= 40 else l for l in cl] for cl in cls]     # gaps in the variable ids
        out.append(("synthetic-%d" % i, CNF(cls), max([max(vs)] + [abs(l) for cl in cls for l in cl]), support, []))
    return out


def c27(tier, seed):
    from sweetpea._internal.core.generate import utility
    from sweetpea._internal.core.generate.tools import cryptominisat as cms
    from sweetpea._internal.core.generate.tools import unigen as ug
    import importlib
    snu = importlib.import_module('sweetpea._internal.core.generate.sample_non_uniform')
    from sweetpea._internal.core.generate.sample_uniform import build_solution
    from pathlib import Path
    t0 = time.time()
    rng = random.Random(seed)
    cases, out = [], []
    tmp = tempfile.mkdtemp(prefix="c27_", dir=os.path.join(common.ROOT, ".work"))
    try:
        items = design_cnfs(tier, rng) + synthetic_cnfs(tier, rng)
        for ident, cnf, fresh, support, reqs in items:
            path = Path(tmp) / "f.cnf"
            if path.exists():
                path.unlink()
            try:
                combined = utility.combine_cnf_with_requests(cnf, fresh, support, reqs)
                utility.save_cnf(path, combined, fresh, support)
            except Exception as e:
                out.append(violation("C27", "raised", {"id": ident}, exc=type(e).__name__, detail=str(e)[:200], op="save_cnf"))
                continue
            bts = _b(path)
            if len(bts) > 30000:
                continue
            expected = [[int(v) for v in cl] for cl in combined]
            cases.append({"kind": "dimacs", "bytes": bts, "clauses": expected, "support": support, "meta": {"id": ident + "/dimacs"}})
            # the library's two parsers on the same bytes
            captured = []

            class FakeSolver:
                def add_clause(self, cl):
                    captured.append(list(cl))

                def solve(self):
                    return (False, None)
            real = cms.pycryptosat
            cms.pycryptosat = types.SimpleNamespace(Solver=FakeSolver)
            try:
                cms._use_pycryptosat_library(path)
            finally:
                cms.pycryptosat = real
            cl2, ind2, nv2 = ug.parse_cnf_file(path)
            cases.append({"kind": "libparse", "bytes": bts, "lib_clauses": captured, "check_ind": False, "lib_ind": [], "lib_nvars": 0,
                          "meta": {"id": ident + "/pycryptosat-parser"}})
            cases.append({"kind": "libparse", "bytes": bts, "lib_clauses": [list(x) for x in cl2], "check_ind": True,
                          "lib_ind": list(ind2), "lib_nvars": nv2, "meta": {"id": ident + "/parse_cnf_file"}})
            # blocking clause between iterations
            if support >= 1:
                sol = [rng.choice([1, -1]) * v for v in range(1, support + 1)]
                snu.update_file(path, sol)
                after = _b(path)
                cases.append({"kind": "update", "before": bts, "after": after, "solution": sol, "meta": {"id": ident + "/update_file"}})
                sol2 = [rng.choice([1, -1]) * v for v in range(1, support + 1)]
                snu.update_file(path, sol2)
                cases.append({"kind": "update", "before": after, "after": _b(path), "solution": sol2, "meta": {"id": ident + "/update_file-2"}})
        # solver output: all assignments of up to 5 variables, one line and split over several v lines
        orig_call = cms.call_cryptominisat
        try:
            nmax = 4 if tier == "quick" else 6
            for n in range(1, nmax + 1):
                for bits in itertools.product([1, -1], repeat=n):
                    lits = [b * (i + 1) for i, b in enumerate(bits)]
                    NL = chr(10)
                    for style in range(6):
                        if style == 0:        # one v line
                            text = "s SATISFIABLE" + NL + "v " + " ".join(map(str, lits)) + " 0" + NL
                        elif style == 1:      # two v lines, a comment first
                            half = max(1, n // 2)
                            text = ("c comment" + NL + "s SATISFIABLE" + NL + "v " + " ".join(map(str, lits[:half])) + NL
                                    + "v " + " ".join(map(str, lits[half:] + [0])) + NL)
                        elif style == 2:      # one literal per v line, the terminating 0 on its own line
                            text = "s SATISFIABLE" + NL + "".join("v %d%s" % (x, NL) for x in lits) + "v 0" + NL
                        elif style == 3:      # two per line, comment lines in between, no trailing newline
                            chunks = [lits[i:i + 2] for i in range(0, n, 2)]
                            text = "s SATISFIABLE" + NL + ("c progress" + NL).join("v " + " ".join(map(str, ch)) + NL for ch in chunks) + "v 0"
                        elif style == 4:      # leading blanks and CRLF line ends
                            half = (n + 1) // 2
                            text = ("s SATISFIABLE\r" + NL + "v " + " ".join(map(str, lits[:half])) + "\r" + NL
                                    + "v " + " ".join(map(str, lits[half:] + [0])) + "\r" + NL)
                        else:                 # three v lines of unequal length
                            a, b2 = max(1, n // 3), max(1, 2 * n // 3)
                            parts3 = [lits[:a], lits[a:b2], lits[b2:] + [0]]
                            text = "s SATISFIABLE" + NL + "".join("v " + " ".join(map(str, p3)) + NL for p3 in parts3 if p3)
                        cms.call_cryptominisat = lambda f, d=False, _t=text: (_t, cms.CryptoMiniSATReturnCode.Satisfiable)
                        try:
                            res = cms.cryptominisat_solve(Path(tmp) / "none.cnf")
                        except Exception as e:
                            out.append(violation("C27", "raised", {"id": "cryptominisat_solve %s style %d" % (lits, style)},
                                                 exc=type(e).__name__, detail=str(e)[:200], op="solver"))
                            continue
                        cases.append({"kind": "solver", "bytes": list(text.encode()), "result": list(res),
                                      "meta": {"id": "cryptominisat_solve %s style %d" % (lits, style)}})
                    line = "v " + " ".join(map(str, lits)) + " 0:1"
                    sol = build_solution(line)
                    cases.append({"kind": "solver", "bytes": list(line.encode()), "result": list(sol.assignment),
                                  "meta": {"id": "build_solution %s" % lits}})
        finally:
            cms.call_cryptominisat = orig_call
    finally:
        import shutil
        shutil.rmtree(tmp, ignore_errors=True)
    stats, err = {}, None
    try:
        bad = run_text(cases, stats)
    except tlc.TLCError as e:
        bad, err = [], str(e)[:1500]
    for c, verdict in bad:
        out.append(violation("C27", "text", {"id": c["meta"]["id"], "kind": c["kind"]}, verdict=verdict, op=c["kind"]))
    cov = {"evaluations": len(cases), "distinct_nontrivial": len(cases), "states": stats.get("states", 0),
           "transitions": stats.get("transitions", 0), "traces_validated_against_impl": len(cases),
           "rule": "files written by save_cnf for design formulas and synthetic CNFs (empty clause lists, support sizes around "
                   "the 10-per-line chunking, gaps in variable ids), the clause lists the library's two parsers recover from "
                   "those bytes, cryptominisat_solve/build_solution on every assignment of up to n variables (one and several "
                   "v lines), and the file before/after update_file; each record is judged by the TLA+ byte readers of Text.tla",
           "samples": [{k: (v if k != "bytes" else bytes(v).decode()[:400]) for k, v in cases[0].items() if k != "meta"}],
           "exhaustive": False}
    return common.finish("C27", tier, seed, "model_checking", out, cov, t0, machinery_error=err)


def c28(tier, seed):
    from sweetpea._internal.core import CNF, Var
    from sweetpea._internal.core.generate.utility import GenerationRequest, AssertionType, combine_and_save_opb
    from sweetpea._internal.core.generate import sample_ilp
    from pathlib import Path
    t0 = time.time()
    rng = random.Random(seed)
    cases, out = [], []
    tmp = tempfile.mkdtemp(prefix="c28_", dir=os.path.join(common.ROOT, ".work"))
    try:
        specs = []
        for n in range(1, 5):
            for rel in ("EQ", "LT", "GT"):
                for k in range(0, n + 2):
                    specs.append((n, [], [(rel, k, list(range(1, n + 1)))]))
        # several requests over ONE variable list (a band  lo < count < hi, an exact count plus a bound, the same request twice)
        for n in (2, 3, 4):
            vs_all = list(range(1, n + 1))
            for (r1, k1) in (("GT", 0), ("GT", 1), ("EQ", 1), ("LT", n)):
                for (r2, k2) in (("LT", n), ("LT", 2), ("EQ", 2), ("GT", 0), ("EQ", 1)):
                    specs.append((n, [], [(r1, k1, vs_all), (r2, k2, vs_all)]))
            specs.append((n, [[1, 2]], [("GT", 0, vs_all), ("LT", n, vs_all), ("GT", 0, vs_all[:-1])]))
        # clauses in which a variable occurs twice: with the same sign, and with both signs (always true)
        for cl in ([1, 1], [1, -1], [-1, 1, 2], [1, 2, -1], [2, -1, -1], [-2, 1, 2, -1], [1, -2, -1, 3], [3, -3], [-3, 3, 1]):
            nn = max(abs(x) for x in cl)
            specs.append((nn, [cl], []))
            specs.append((nn, [cl, [-nn]], [("LT", nn, list(range(1, nn + 1)))]))
        m = 30 if tier == "quick" else 300
        for _ in range(m):
            n = rng.randrange(2, 6)
            vs = list(range(1, n + 1))
            cls = [[rng.choice([1, -1]) * v for v in rng.sample(vs, rng.randrange(1, min(3, n) + 1))] for _ in range(rng.randrange(0, 4))]
            reqs = []
            for _ in range(rng.randrange(0, 3)):
                sub = sorted(rng.sample(vs, rng.randrange(1, n + 1)))
                reqs.append((rng.choice(["EQ", "LT", "GT"]), rng.randrange(0, len(sub) + 2), sub))
            specs.append((n, cls, reqs))
        for si, (n, cls, reqs) in enumerate(specs):
            path = Path(tmp) / ("f%d.opb" % si)
            greqs = [GenerationRequest(AssertionType[rel], k, [Var(v) for v in vs]) for rel, k, vs in reqs]
            with open(os.devnull, "w") as dn:
                so = sys.stdout
                sys.stdout = dn
                try:
                    combine_and_save_opb(path, CNF(cls), n, greqs)
                finally:
                    sys.stdout = so
            bts = _b(path)
            cases.append({"kind": "opb", "bytes": bts, "nv": n, "clauses": cls,
                          "reqs": [{"rel": rel, "k": k, "vars": vs} for rel, k, vs in reqs],
                          "meta": {"id": "opb n=%d clauses=%s reqs=%s" % (n, cls, reqs), "reqs": reqs}})
            sol = [rng.choice([1, -1]) * v for v in range(1, n + 1)]
            sample_ilp.update_file(path, sol)
            cases.append({"kind": "opbupdate", "before": bts, "after": _b(path), "nv": n, "solution": sol,
                          "meta": {"id": "opb update n=%d sol=%s" % (n, sol), "reqs": reqs}})
    finally:
        import shutil
        shutil.rmtree(tmp, ignore_errors=True)
    stats, err = {}, None
    try:
        bad = run_text(cases, stats)
    except tlc.TLCError as e:
        bad, err = [], str(e)[:1500]
    seen = set()
    for c, verdict in bad:
        if c["meta"]["id"] in seen:
            continue
        seen.add(c["meta"]["id"])
        rels = sorted(set(r[0] for r in c["meta"]["reqs"]))
        out.append(violation("C28", "opb", {"id": c["meta"]["id"], "kind": c["kind"]}, verdict=verdict, op=c["kind"], rels=rels))
    cov = {"evaluations": stats.get("states", 0), "distinct_nontrivial": len(cases), "states": stats.get("states", 0),
           "transitions": stats.get("transitions", 0), "traces_validated_against_impl": len(cases),
           "rule": "OPB text written by combine_and_save_opb for every (relation, n, k) with n<=4 and for seeded random clause sets "
                   "with up to two requests over at most 5 variables, and the text after sample_ilp.update_file; MCText parses the "
                   "bytes (Text!ParseOpb) and, for ALL assignments of the variables, compares pseudo-Boolean satisfaction with the "
                   "meaning of the clauses and requests (the meaning the SAT encoding is tied to by C10)",
           "samples": [{k: (v if k != "bytes" else bytes(v).decode()) for k, v in cases[len(cases) // 2].items() if k != "meta"}],
           "exhaustive": False}
    return common.finish("C28", tier, seed, "model_checking", out, cov, t0, machinery_error=err)


CHECKS = {"C27": c27, "C28": c28}
