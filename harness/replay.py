"""./check <Cxx> --replay <path>: re-run the property's check on the single case stored in a replay file.

Design-family checks take their case list from common.replay_cases() when VERIF_REPLAY is set; for the checks whose cases
are not IR designs (gadgets, text, combinatorics, histories) the whole quick check is re-run - they take seconds."""
import json
import os
import sys


def run(prop, path):
    with open(path) as f:
        v = json.load(f)
    case = v.get("case") or {}
    if "factors" in case and "block" in case:
        os.environ["VERIF_REPLAY"] = path
    import cli
    reg = cli.registry()
    import common
    print("REPLAY property=%s case=%s recorded=%s" % (prop, case.get("id"), {k: v[k] for k in v if k not in ("case", "detail")}))
    return reg[prop]("quick", common.seed_from_env())
