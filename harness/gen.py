"""Case generators: descriptions of designs as IR data (no semantics, no oracle).

Tiers (DESIGN.md section 3):
  A  healthy core           flat CrossBlocks using only features on which the documentation is explicit
  B  documented corners     start earlier than default, stride 2, k larger than the window, weights on
                            uncrossed factors, derived factors crossed with their sources, ...
  C  combinators            Repeat / MultiCrossBlock / Merge / Nest
  D  ill-formed             ambiguous / partial derivations
Every case carries "tags" naming the features it exercises and "tier".
"""
import copy
import itertools
import random


def lv(prefix, n):
    return [prefix + str(i + 1) for i in range(n)]


def basic(name, n, w=None):
    return {"kind": "b", "name": name, "levels": lv(name, n), "w": list(w) if w else [1] * n}


def window_domain(factors, deps, width, none_positions=()):
    """all window tuples (level indices) of a derived factor; positions listed in none_positions may be 0"""
    doms = []
    p = 0
    for g in deps:
        nl = len(factors[g - 1]["levels"])
        for off in range(width):
            d = list(range(1, nl + 1))
            if p in none_positions:
                d = [0] + d
            doms.append(d)
            p += 1
    return [list(t) for t in itertools.product(*doms)]


def is_complex(factors, i):
    f = factors[i - 1]
    if f["kind"] != "d":
        return False
    return f["width"] > 1 or f["stride"] > 1 or f["start"] > 0 or is_complex(factors, f["deps"][0])


def ready_at(factors, g):
    return factors[g - 1]["start"] if is_complex(factors, g) else 0


def default_start(factors, deps, width):
    return max(ready_at(factors, g) + width - 1 for g in deps)


def none_positions(factors, deps, width, start):
    """positions of the window tuple where None is part of the domain (library rule, used only to size tables)"""
    out = []
    p = 0
    for g in deps:
        for off in range(width):
            if ready_at(factors, g) > start - width + off + 1:
                out.append(p)
            p += 1
    return out


def derived(factors, name, deps, dkind, nl=2, width=None, stride=1, start=None, table=None, rng=None,
            w=None, else_level=0):
    """append-ready derived factor over already defined `factors`; table = list (per level) of tuples,
    or None for a random total unambiguous table with every level non-empty."""
    if dkind == "within":
        width, stride = 1, 1
        st = default_start(factors, deps, 1)
    elif dkind == "transition":
        width, stride = 2, 1
        st = 1
    else:
        st = default_start(factors, deps, width) if start is None else start
    f = {"kind": "d", "name": name, "levels": lv(name, nl), "w": list(w) if w else [1] * nl,
         "deps": list(deps), "width": width, "stride": stride, "start": st, "dkind": dkind}
    if dkind == "window" and start is not None:
        f["start_arg"] = start
    elif dkind == "window":
        f["start_arg"] = None
    dom = window_domain(factors, deps, width, none_positions(factors, deps, width, st))
    if table is None:
        rng = rng or random
        while True:
            assign = [rng.randrange(nl) for _ in dom]
            if len(set(assign)) == nl or len(dom) < nl:
                break
        table = [[t for t, a in zip(dom, assign) if a == l] for l in range(nl)]
    f["acc"] = table
    if else_level:
        f["else"] = else_level
    return f


def eq_table(factors, deps, width=1):
    """level 1 = all window entries equal (by index), level 2 = otherwise"""
    dom = window_domain(factors, deps, width)
    same = [t for t in dom if len(set(t)) == 1]
    diff = [t for t in dom if len(set(t)) != 1]
    return [same, diff]


def cross(design, crossing, cons=(), rcc=True):
    return {"op": "Cross", "design": list(design), "crossing": list(crossing), "cons": list(cons), "rcc": rcc}


def K(c, **kw):
    d = {"c": c}
    d.update(kw)
    return d


def case(factors, block, tier, tags, cid=None):
    return {"id": cid or "", "tier": tier, "tags": list(tags), "factors": factors, "block": block}


# ---------------------------------------------------------------------------------------------
# systematic skeleton (identical for every seed)

def stroop(n_color=2, n_word=2, wcolor=None):
    F = [basic("color", n_color, wcolor), basic("word", n_word)]
    F.append(derived(F, "cong", [1, 2], "within", table=eq_table(F, [1, 2])))
    F.append(derived(F, "rep", [1], "transition", table=eq_table(F, [1], 2)))
    return F


def single_constraints(F, fid, T, lo_k=1):
    """every constraint kind once on factor fid (level 1 / whole factor), parameters inside the healthy region"""
    out = []
    nl = len(F[fid - 1]["levels"])
    out.append(("AtMostK1", [K("AtMostKInARow", k=1, f=fid, l=1)]))
    out.append(("AtMostK2f", [K("AtMostKInARow", k=2, f=fid, l=0)]))
    if T >= 3:
        out.append(("AtLeastK2", [K("AtLeastKInARow", k=2, f=fid, l=1)]))
        out.append(("ExactlyKRow2", [K("ExactlyKInARow", k=2, f=fid, l=1)]))
        out.append(("ExactlyKRow1", [K("ExactlyKInARow", k=1, f=fid, l=2)]))
    out.append(("Exclude", [K("Exclude", f=fid, l=nl)]))
    return out


def systematic_flat():
    cases = []
    F = stroop()
    full = [1, 2, 3, 4]
    crossings = [([1], "x1"), ([1, 2], "x12"), ([1, 3], "x13"), ([1, 4], "x14"), ([2, 4], "x24"), ([3, 4], "x34")]
    for X, xn in crossings:
        cases.append(case(F, cross(full, X), "A", ["plain", xn], "sys-%s-plain" % xn))
    # every constraint kind on a basic crossed, basic uncrossed, within-trial derived, transition factor
    for X, xn in [([1, 2], "x12"), ([1], "x1"), ([1, 4], "x14")]:
        T = 4 if xn == "x12" else (2 if xn == "x1" else 5)
        for fid, fn in [(1, "basicX"), (2, "basic"), (3, "within"), (4, "transition")]:
            for cn, cons in single_constraints(F, fid, T):
                if cn == "Exclude" and fid in X:
                    rcc = False
                elif cn == "Exclude":
                    rcc = False
                else:
                    rcc = True
                if xn == "x1" and cn in ("AtLeastK2", "ExactlyKRow2", "ExactlyKRow1"):
                    continue
                if fid == 4 and cn.startswith(("AtLeast", "ExactlyKRow")) and T < 5:
                    continue
                cases.append(case(F, cross(full, X, cons, rcc), "A", [cn, fn, xn], "sys-%s-%s-%s" % (xn, fn, cn)))
    # Pin / ExactlyK / Sequential on simple factors
    for X, xn in [([1, 2], "x12"), ([1, 4], "x14")]:
        for idx in (0, 1, -1):
            cases.append(case(F, cross(full, X, [K("Pin", i=idx, f=1, l=1)]), "A", ["Pin", xn], "sys-%s-pin%d" % (xn, idx)))
            cases.append(case(F, cross(full, X, [K("Pin", i=idx, f=3, l=2)]), "A", ["Pin", "within", xn], "sys-%s-pinw%d" % (xn, idx)))
        for k in (1, 2):
            cases.append(case(F, cross(full, X, [K("ExactlyK", k=k, f=2, l=1)]), "A", ["ExactlyK", xn], "sys-%s-exk%d" % (xn, k)))
            cases.append(case(F, cross(full, X, [K("ExactlyK", k=k, f=3, l=1)]), "A", ["ExactlyK", "within", xn], "sys-%s-exkw%d" % (xn, k)))
    cases.append(case(F, cross(full, [1, 2], [K("Sequential", f=1)]), "A", ["Sequential"], "sys-seq-crossed"))
    cases.append(case(F, cross([1, 2, 3], [1], [K("Sequential", f=2)]), "A", ["Sequential"], "sys-seq-uncrossed"))
    # MinimumTrials: exact multiple, partial chunk, with preamble
    for X, xn in [([1, 2], "x12"), ([1], "x1"), ([1, 4], "x14")]:
        for k in (3, 5, 6, 8):
            if xn == "x12" and k == 8:
                continue
            cases.append(case(F, cross(full, X, [K("MinimumTrials", k=k)]), "A", ["MinimumTrials", xn], "sys-%s-min%d" % (xn, k)))
    # weights on crossed factors
    Fw = stroop(wcolor=[2, 1])
    for X, xn in [([1], "x1"), ([1, 2], "x12"), ([1, 4], "x14")]:
        cases.append(case(Fw, cross(full, X), "A", ["weights", xn], "sys-w-%s" % xn))
        cases.append(case(Fw, cross(full, X, [K("MinimumTrials", k=5)]), "A", ["weights", "MinimumTrials", xn], "sys-w-%s-min5" % xn))
        cases.append(case(Fw, cross(full, X, [K("AtMostKInARow", k=1, f=1, l=1)]), "A", ["weights", "AtMostK", xn], "sys-w-%s-atmost" % xn))
    # three-level factors, window width 3, derived of derived
    F3 = [basic("a", 3), basic("b", 2)]
    F3.append(derived(F3, "w3", [2], "window", width=3, table=eq_table(F3, [2], 3)))
    F3.append(derived(F3, "tr", [1], "transition", table=eq_table(F3, [1], 2)))
    cases.append(case(F3, cross([1, 2, 3, 4], [1, 2]), "A", ["width3", "uncrossed-window"], "sys-w3-uncrossed"))
    cases.append(case(F3, cross([1, 2, 3], [2, 3]), "A", ["width3", "crossed-window"], "sys-w3-crossed"))
    cases.append(case(F3, cross([1, 2, 4], [1], [K("AtMostKInARow", k=1, f=4, l=2)]), "A", ["transition3"], "sys-tr3"))
    # a preamble of two trials with two basic factors, small enough for the complete draw tree (C05)
    F3s = [basic("a", 2), basic("b", 2)]
    F3s.append(derived(F3s, "w3", [1], "window", width=3, table=eq_table(F3s, [1], 3)))
    cases.append(case(F3s, cross([1, 2, 3], [3]), "A", ["width3", "crossed-window", "preamble2"], "sys-w3-small-x3"))
    cases.append(case(F3s, cross([1, 3], [3]), "A", ["width3", "crossed-window", "preamble2"], "sys-w3-small-x3-a"))
    cases.append(case(F3s, cross([1, 2, 3], [2, 3]), "A", ["width3", "crossed-window", "preamble2"], "sys-w3-small-x23"))
    # ... and with a three-level basic factor (3*2 differs from 3**2 preamble combinations)
    F3t = [basic("a", 3)]
    F3t.append(derived(F3t, "w3", [1], "window", width=3, table=eq_table(F3t, [1], 3)))
    cases.append(case(F3t, cross([1, 2], [2]), "A", ["width3", "crossed-window", "preamble2", "three-levels"], "sys-w3-a3-x"))
    F3u = [basic("a", 3), basic("b", 2)]
    F3u.append(derived(F3u, "w3", [2], "window", width=3, table=eq_table(F3u, [2], 3)))
    cases.append(case(F3u, cross([1, 2, 3], [3]), "A", ["width3", "crossed-window", "preamble2", "three-levels"], "sys-w3-a3b-x"))
    F4 = stroop()
    F4.append(derived(F4, "cc", [3, 4], "within", table=eq_table(F4, [3, 4])))   # within-trial of a transition: complex
    cases.append(case(F4, cross([1, 2, 3, 4, 5], [1, 2]), "A", ["derived-of-derived"], "sys-dd-uncrossed"))
    F5 = stroop()
    F5.append(derived(F5, "ct", [3], "transition", table=eq_table(F5, [3], 2)))   # transition of a within-trial factor
    cases.append(case(F5, cross([1, 2, 3, 5], [1, 2]), "A", ["derived-of-derived"], "sys-dd-trans-of-within"))
    cases.append(case(F5, cross([1, 2, 3, 5], [1, 5]), "A", ["derived-of-derived", "crossed"], "sys-dd-crossed"))
    # LatinSquare
    FL = [basic("p", 3), basic("q", 3)]
    cases.append(case(FL, cross([1, 2], [1, 2], [K("LatinSquare", fs=[1, 2])]), "A", ["LatinSquare"], "sys-latin-33"))
    FL2 = [basic("p", 3), basic("q", 2)]
    cases.append(case(FL2, cross([1, 2], [1, 2], [K("LatinSquare", fs=[1, 2])]), "A", ["LatinSquare"], "sys-latin-32"))
    cases.append(case(FL2, cross([1, 2], [1], [K("LatinSquare", fs=[1, 2]), K("MinimumTrials", k=6)]), "A", ["LatinSquare"], "sys-latin-uncrossed"))
    # Exclude of a derived level while the crossing has a preamble (crossed transition): the preamble trials
    # are free except for constraints, so the excluded level must not show up there either
    for X, xn in [([1, 2, 4], "x124"), ([1, 4], "x14"), ([2, 4], "x24")]:
        cases.append(case(F, cross(full, X, [K("Exclude", f=3, l=1)], False), "A", ["Exclude-derived", "preamble", xn], "sys-%s-exd-pre" % xn))
        cases.append(case(F, cross(full, X, [K("Exclude", f=2, l=1)], False), "A", ["Exclude", "preamble", xn], "sys-%s-exb-pre" % xn))
    # a windowed factor derived from another windowed factor, crossed (preamble = start of the outer window)
    F6 = [basic("color", 2)]
    F6.append(derived(F6, "rep", [1], "transition", table=eq_table(F6, [1], 2)))
    F6.append(derived(F6, "chg", [2], "window", width=2, table=eq_table(F6, [2], 2)))
    cases.append(case(F6, cross([1, 2, 3], [1, 3]), "A", ["window-of-window", "crossed"], "sys-ww-crossed"))
    cases.append(case(F6, cross([1, 2, 3], [3]), "A", ["window-of-window", "crossed"], "sys-ww-crossed-alone"))
    cases.append(case(F6, cross([1, 2, 3], [1]), "A", ["window-of-window", "uncrossed"], "sys-ww-uncrossed"))
    # same with a grid whose variables-per-trial differs from the number of levels of the inner windowed factor
    # (variables of complex-window factors have their own layout; FX14)
    F7 = [basic("color", 3)]
    F7.append(derived(F7, "rep", [1], "transition", table=eq_table(F7, [1], 2)))
    F7.append(derived(F7, "chg", [2], "window", width=2, table=eq_table(F7, [2], 2)))
    cases.append(case(F7, cross([1, 2, 3], [3]), "A", ["window-of-window", "crossed", "grid3"], "sys-ww3-crossed-alone"))
    cases.append(case(F7, cross([1, 2, 3], [1], [K("AtMostKInARow", k=1, f=3, l=1), K("MinimumTrials", k=5)]), "A",
                      ["window-of-window", "constrained", "grid3"], "sys-ww3-atmost"))
    cases.append(case(F7, cross([1, 2, 3], [1], [K("MinimumTrials", k=4)]), "A", ["window-of-window", "implied", "grid3"], "sys-ww3-implied"))
    F8 = [basic("a", 2), basic("b", 2)]
    F8.append(derived(F8, "ra", [1], "transition", table=eq_table(F8, [1], 2)))
    F8.append(derived(F8, "w3", [3], "window", width=3, table=eq_table(F8, [3], 3)))
    cases.append(case(F8, cross([1, 2, 3, 4], [1], [K("AtMostKInARow", k=1, f=4, l=2), K("MinimumTrials", k=5)]), "A",
                      ["window3-of-transition", "constrained", "grid4"], "sys-w3t-atmost"))
    cases.append(case(F8, cross([1, 2, 3, 4], [4]), "A", ["window3-of-transition", "crossed", "grid4"], "sys-w3t-crossed"))
    # require_complete_crossing with impossible combinations
    Fi = [basic("a", 2), basic("b", 2)]
    Fi.append(derived(Fi, "e", [1, 2], "within", table=eq_table(Fi, [1, 2])))
    cases.append(case(Fi, cross([1, 2, 3], [1, 3], [], True), "A", ["derived-with-source", "rcc"], "sys-src-rcc"))
    cases.append(case(Fi, cross([1, 2, 3], [1, 3], [K("Exclude", f=3, l=1)], False), "A", ["Exclude-derived", "norcc"], "sys-exd-norcc"))
    cases.append(case(Fi, cross([1, 2, 3], [1, 2], [K("Exclude", f=3, l=1)], False), "A", ["Exclude-derived-uncrossed", "norcc"], "sys-exdu-norcc"))
    cases.append(case(Fi, cross([1, 2, 3], [1, 2], [K("Exclude", f=3, l=1)], True), "A", ["Exclude-derived-uncrossed", "rcc"], "sys-exdu-rcc"))
    return cases


def systematic_corner():
    """tier B: documented corners (identical for every seed)"""
    out = []
    F = stroop()
    full = [1, 2, 3, 4]
    # run-length constraints whose k (+1) exceeds the window they are evaluated in
    for k in (2, 3, 5):
        for kind in ("AtLeastKInARow", "ExactlyKInARow"):
            for X in ([1], [1, 2]):
                for f in (1, 2, 4):
                    out.append(case(F, cross(full, X, [K(kind, k=k, f=f, l=1)]), "B", [kind, "short-window"],
                                    "cor-%s-k%d-x%d-f%d" % (kind, k, len(X), f)))
    # ExactlyK with k beyond the number of trials, k = 0; Pin outside the sequence
    for X in ([1], [1, 2]):
        T = 2 if len(X) == 1 else 4
        for k in (T, T + 1, T + 3):
            out.append(case(F, cross(full, X, [K("ExactlyK", k=k, f=2, l=1)]), "B", ["ExactlyK", "k-out-of-range"],
                            "cor-exk%d-x%d" % (k, len(X))))
        for i in (T, T + 2, -T, -T - 1):
            out.append(case(F, cross(full, X, [K("Pin", i=i, f=2, l=1)]), "B", ["Pin", "index-out-of-range"],
                            "cor-pin%d-x%d" % (i, len(X))))
    # AtMostKInARow with k >= T (vacuous)
    out.append(case(F, cross(full, [1, 2], [K("AtMostKInARow", k=4, f=2, l=1)]), "B", ["AtMostKInARow", "vacuous"], "cor-atmost-big"))
    out.append(case(F, cross(full, [1, 2], [K("AtMostKInARow", k=9, f=2, l=0)]), "B", ["AtMostKInARow", "vacuous"], "cor-atmost-huge"))
    # weighted levels of a non-derived factor that is NOT crossed (R11: copies are distinct solutions reported under one name)
    Fw = stroop()
    Fw[1]["w"] = [2, 1]                      # word is weighted and uncrossed below
    for X, xn in [([1], "x1"), ([1, 4], "x14")]:
        out.append(case(Fw, cross(full, X), "B", ["weights-uncrossed", xn], "cor-wu-%s" % xn))
        out.append(case(Fw, cross(full, X, [K("AtMostKInARow", k=1, f=2, l=1)]), "B", ["weights-uncrossed", "AtMostK", xn], "cor-wu-%s-atmost" % xn))
        out.append(case(Fw, cross(full, X, [K("ExactlyK", k=1, f=2, l=1)]), "B", ["weights-uncrossed", "ExactlyK", xn], "cor-wu-%s-exk" % xn))
        out.append(case(Fw, cross(full, X, [K("Exclude", f=3, l=1)], False), "B", ["weights-uncrossed", "Exclude-derived", xn], "cor-wu-%s-exd" % xn))
        out.append(case(Fw, cross(full, X, [K("AtMostKInARow", k=1, f=3, l=1)]), "B", ["weights-uncrossed", "AtMostK-derived", xn], "cor-wu-%s-atmostd" % xn))
        # constraints on a WHOLE factor (every level) that weight desugaring replaces (FX18)
        out.append(case(Fw, cross(full, X, [K("AtMostKInARow", k=1, f=2, l=0)]), "B", ["weights-uncrossed", "whole-factor", xn], "cor-wu-%s-atmost-whole" % xn))
        out.append(case(Fw, cross(full, X, [K("AtMostKInARow", k=1, f=3, l=0)]), "B", ["weights-uncrossed", "whole-factor-derived", xn], "cor-wu-%s-atmostd-whole" % xn))
        out.append(case(Fw, cross(full, X, [K("AtLeastKInARow", k=2, f=3, l=0)]), "B", ["weights-uncrossed", "whole-factor-derived", xn], "cor-wu-%s-atleastd-whole" % xn))
    out.append(case(Fw, cross([1, 2], [1], [K("MinimumTrials", k=3)]), "B", ["weights-uncrossed", "MinimumTrials"], "cor-wu-min3"))
    # a weighted derived level whose factor depends on a weighted uncrossed (desugared) factor keeps its weight (FX24)
    Fdw = [basic("a", 2, [2, 1]), basic("b", 2)]
    Fdw.append(derived(Fdw, "d", [1, 2], "within", table=eq_table(Fdw, [1, 2]), w=[2, 1]))
    out.append(case(Fdw, cross([1, 2, 3], [3]), "B", ["weights-uncrossed", "weighted-derived-level", "crossed"], "cor-wu-dweight-x3"))
    out.append(case(Fdw, cross([1, 2, 3], [2, 3]), "B", ["weights-uncrossed", "weighted-derived-level", "crossed"], "cor-wu-dweight-x23"))
    out.append(case(Fdw, cross([1, 2, 3], [2], [K("MinimumTrials", k=3)]), "B", ["weights-uncrossed", "weighted-derived-level", "implied"],
                    "cor-wu-dweight-implied"))
    # Pin / ExactlyK / Exclude on a Transition factor (no level at trial 0)
    for X, xn in [([1, 2], "x12"), ([1, 4], "x14"), ([1], "x1")]:
        for i in (0, 1, 2, -1):
            out.append(case(F, cross(full, X, [K("Pin", i=i, f=4, l=1)]), "B", ["Pin", "complex-factor"], "cor-%s-pinT%d" % (xn, i)))
        for k in (1, 2):
            out.append(case(F, cross(full, X, [K("ExactlyK", k=k, f=4, l=1)]), "B", ["ExactlyK", "complex-factor"], "cor-%s-exkT%d" % (xn, k)))
        out.append(case(F, cross(full, X, [K("Exclude", f=4, l=1)], False), "B", ["Exclude", "complex-factor"], "cor-%s-exclT" % xn))
    # constraints on strided factors and on windows that start later than their default
    B = [basic("a", 2), basic("b", 2)]
    for width in (1, 2):
        f = derived(B, "d", [1], "window", width=width, stride=2, table=eq_table(B, [1], width) if width > 1 else [[[1]], [[2]]])
        for cn, con in [("atmost1", K("AtMostKInARow", k=1, f=3, l=1)), ("atleast2", K("AtLeastKInARow", k=2, f=3, l=1)),
                        ("exrow1", K("ExactlyKInARow", k=1, f=3, l=1)), ("exk1", K("ExactlyK", k=1, f=3, l=1)),
                        ("pin0", K("Pin", i=0, f=3, l=1)), ("pin1", K("Pin", i=1, f=3, l=1)), ("pin2", K("Pin", i=2, f=3, l=1)),
                        ("excl", K("Exclude", f=3, l=1))]:
            out.append(case(B + [f], cross([1, 2, 3], [1, 2], [con, K("MinimumTrials", k=6)], cn != "excl"), "B",
                            ["stride", cn] + (["run-length-on-stride"] if cn in ("atmost1", "atleast2", "exrow1") else []),
                            "cor-stride2-w%d-%s" % (width, cn)))
    for start in (2, 3):
        f = derived(B, "d", [1], "window", width=2, start=start, table=eq_table(B, [1], 2))
        for cn, con in [("atmost1", K("AtMostKInARow", k=1, f=3, l=1)), ("exk1", K("ExactlyK", k=1, f=3, l=1)),
                        ("pin0", K("Pin", i=0, f=3, l=1)), ("pin-1", K("Pin", i=-1, f=3, l=1)), ("pin2", K("Pin", i=2, f=3, l=1))]:
            out.append(case(B + [f], cross([1, 2, 3], [1, 2], [con, K("MinimumTrials", k=6)]), "B", ["late-start", cn], "cor-start%d-%s" % (start, cn)))
            out.append(case(B + [f], cross([1, 2, 3], [2, 3], [con]), "B", ["late-start", "crossed", cn], "cor-start%d-x-%s" % (start, cn)))
    # stride > 1 together with a start later than the default (FX15), small enough to be exhausted
    A1 = [basic("a", 2)]
    for stride, start in ((2, 2), (2, 3), (3, 2)):
        f = derived(A1, "d", [1], "window", width=2, stride=stride, start=start, table=eq_table(A1, [1], 2))
        for cn, con in [("exk1", K("ExactlyK", k=1, f=2, l=1)), ("excl", K("Exclude", f=2, l=1)), ("pin-1", K("Pin", i=-1, f=2, l=2))]:
            out.append(case(A1 + [f], cross([1, 2], [1], [con, K("MinimumTrials", k=6)], cn != "excl"), "B",
                            ["stride", "late-start", cn], "cor-stride%d-start%d-%s" % (stride, start, cn)))
    # a within-trial factor over a basic factor and a Transition: it starts with the Transition (mixed readiness, FX15)
    M = [basic("a", 3), basic("b", 2)]
    M.append(derived(M, "tr", [1], "transition", table=eq_table(M, [1], 2)))
    M.append(derived(M, "wt", [2, 3], "within", table=eq_table(M, [2, 3])))
    out.append(case(M, cross([1, 2, 3, 4], [2], [K("MinimumTrials", k=3)]), "B", ["mixed-readiness", "implied"], "cor-mixed-implied"))
    out.append(case(M, cross([1, 2, 3, 4], [2], [K("MinimumTrials", k=3), K("AtMostKInARow", k=1, f=4, l=1)]), "B",
                    ["mixed-readiness", "AtMostKInARow"], "cor-mixed-atmost"))
    out.append(case(M, cross([1, 2, 3, 4], [4], []), "B", ["mixed-readiness", "crossed"], "cor-mixed-crossed"))
    out.append(case(M, cross([1, 2, 3, 4], [2], [K("MinimumTrials", k=3), K("Exclude", f=4, l=1)], False), "B",
                    ["mixed-readiness", "Exclude"], "cor-mixed-excl"))
    out.append(case(M, cross([1, 2, 3, 4], [2], [K("MinimumTrials", k=3), K("ExactlyK", k=1, f=4, l=2)]), "B",
                    ["mixed-readiness", "ExactlyK"], "cor-mixed-exk"))
    # the design lists a derived factor before the factors it is derived from (FX16)
    O = [basic("a", 2), basic("b", 2)]
    O.append(derived(O, "d", [1, 2], "within", table=eq_table(O, [1, 2])))
    O.append(derived(O, "dd", [3], "transition", table=eq_table(O, [3], 2)))
    for order in ([4, 3, 2, 1], [1, 2, 4, 3], [4, 1, 2, 3], [3, 4, 1, 2]):
        on = "".join(map(str, order))
        out.append(case(O, cross(order, [1, 2]), "B", ["design-order", "implied"], "cor-order%s-implied" % on))
        out.append(case(O, cross(order, [1, 2], [K("AtMostKInARow", k=1, f=4, l=1)]), "B", ["design-order", "AtMostKInARow"],
                        "cor-order%s-atmost" % on))
        out.append(case(O, cross(order, [2, 1]), "B", ["design-order", "crossing-order"], "cor-order%s-x21" % on))
    # a window over a Transition that starts before the Transition has a level: None at those positions (FX17)
    def _tbl(Fx, deps, width, start):
        dom = window_domain(Fx, deps, width, none_positions(Fx, deps, width, start))
        return [[t for t in dom if len(set(t)) == 1], [t for t in dom if len(set(t)) != 1]]
    for a_n in (2, 3):
        E = [basic("a", a_n)]
        E.append(derived(E, "tr", [1], "transition", table=eq_table(E, [1], 2)))
        for st in (0, 1):
            G = E + [derived(E, "ww", [2], "window", width=2, start=st, table=_tbl(E, [2], 2, st))]
            out.append(case(G, cross([1, 2, 3], [1], [K("MinimumTrials", k=4)]), "B", ["early-start-over-complex", "implied"],
                            "cor-early-a%d-ww%d-implied" % (a_n, st)))
            out.append(case(G, cross([1, 2, 3], [1], [K("MinimumTrials", k=4), K("ExactlyK", k=1, f=3, l=2)]), "B",
                            ["early-start-over-complex", "ExactlyK"], "cor-early-a%d-ww%d-exk" % (a_n, st)))
            out.append(case(G, cross([1, 2, 3], [3], []), "B", ["early-start-over-complex", "crossed"],
                            "cor-early-a%d-ww%d-crossed" % (a_n, st)))
        G = E + [derived(E, "w1", [2], "window", width=1, start=0, table=_tbl(E, [2], 1, 0))]
        out.append(case(G, cross([1, 2, 3], [1], [K("MinimumTrials", k=4)]), "B", ["early-start-over-complex", "implied"],
                        "cor-early-a%d-w1-implied" % a_n))
    # two complex-window factors in the encoding, the strided one listed first (variable layout of the second depends on it)
    V = [basic("a", 2), basic("b", 2)]
    V.append(derived(V, "s2", [1], "window", width=1, stride=2, table=[[[1]], [[2]]]))
    V.append(derived(V, "tb", [2], "transition", table=eq_table(V, [2], 2)))
    V.append(derived(V, "s3", [2], "window", width=2, stride=3, table=eq_table(V, [2], 2)))
    out.append(case(V, cross([1, 2, 3, 4], [1, 2], [K("ExactlyK", k=1, f=3, l=1), K("ExactlyK", k=1, f=4, l=1)]), "B",
                    ["two-complex", "stride-first"], "cor-two-complex-s2-tb"))
    out.append(case(V, cross([1, 2, 4, 3], [1, 2], [K("ExactlyK", k=1, f=3, l=1), K("ExactlyK", k=1, f=4, l=1)]), "B",
                    ["two-complex", "stride-last"], "cor-two-complex-tb-s2"))
    out.append(case(V, cross([1, 2, 5, 4, 3], [1, 2], [K("ExactlyK", k=1, f=3, l=1), K("ExactlyK", k=1, f=4, l=1), K("ExactlyK", k=1, f=5, l=2),
                                                     K("MinimumTrials", k=6)]), "B",
                    ["two-complex", "three-complex"], "cor-three-complex"))
    # run-length constraints with k >= 3 (windows longer than k+1 trials: several k+1-sublists, FX25)
    Fk = [basic("a", 2, [2, 1]), basic("b", 2)]
    for kk in (3, 4):
        for cn in ("AtLeastKInARow", "ExactlyKInARow", "AtMostKInARow"):
            out.append(case(Fk, cross([1, 2], [1, 2], [K(cn, k=kk, f=1, l=1)]), "B", [cn, "k%d" % kk, "long-window"],
                            "cor-k%d-%s" % (kk, cn)))
    Fk2 = [basic("a", 2), basic("b", 2)]
    for cn in ("AtLeastKInARow", "ExactlyKInARow"):
        out.append(case(Fk2, cross([1, 2], [1], [K(cn, k=3, f=2, l=1), K("MinimumTrials", k=7)]), "B", [cn, "k3", "uncrossed", "long-window"],
                        "cor-k3-%s-free7" % cn))
        out.append(case(Fk2, cross([1, 2], [1], [K(cn, k=3, f=2, l=0), K("MinimumTrials", k=6)]), "B", [cn, "k3", "whole-factor", "long-window"],
                        "cor-k3-%s-whole6" % cn))
    # a constraint on a Transition factor in a design of ONE trial (the factor never has a level: requests over no variables, FX27)
    Fz = [basic("a", 2)]
    Fz.append(derived(Fz, "tr", [1], "transition", table=eq_table(Fz, [1], 2)))
    for cn, con in (("exk1", K("ExactlyK", k=1, f=2, l=2)), ("atmost1", K("AtMostKInARow", k=1, f=2, l=2)),
                    ("atleast2", K("AtLeastKInARow", k=2, f=2, l=1)), ("exrow1", K("ExactlyKInARow", k=1, f=2, l=1))):
        out.append(case(Fz, cross([1, 2], [1], [con, K("Exclude", f=1, l=1)], False), "B", ["no-applicable-trial", cn],
                        "cor-noappl-%s" % cn))
    # MinimumTrials below the crossing size, equal to it, 1
    for m in (1, 3, 4):
        out.append(case(F, cross(full, [1, 2], [K("MinimumTrials", k=m)]), "B", ["MinimumTrials", "small"], "cor-min%d" % m))
    return out


# ---------------------------------------------------------------------------------------------
# seeded random flat designs, tier A

def random_flat(rng, n, max_T=8, min_T=0, est_cap=3e5):
    out = []
    tries = 0
    while len(out) < n and tries < n * 50:
        tries += 1
        F = []
        nb = rng.choice([1, 2, 2, 3])
        for i in range(nb):
            F.append(basic("abc"[i], rng.choice([2, 2, 3])))
        nd = rng.choice([0, 1, 1, 2, 2])
        for j in range(nd):
            kind = rng.choice(["within", "within", "transition", "transition", "window"])
            simple = [i + 1 for i in range(len(F)) if not is_complex(F, i + 1)]
            cand = simple if kind != "within" else list(range(1, len(F) + 1))
            if kind == "within":
                # a within-trial level; its dependencies may be ready at different trials (it starts with the latest)
                cand = [i + 1 for i in range(len(F))]
            ndeps = rng.choice([1, 2]) if len(cand) >= 2 else 1
            deps = sorted(rng.sample(cand, ndeps))
            name = "d%d" % (j + 1)
            if kind == "window":
                width = rng.choice([2, 3])
                if len(window_domain(F, deps, width)) > 30:
                    deps = deps[:1]
                F.append(derived(F, name, deps, "window", nl=2, width=width, rng=rng))
            else:
                if len(window_domain(F, deps, 2 if kind == "transition" else 1)) > 40:
                    deps = deps[:1]
                nl = rng.choice([2, 2, 3]) if len(window_domain(F, deps, 2 if kind == "transition" else 1)) >= 3 else 2
                F.append(derived(F, name, deps, kind, nl=nl, rng=rng))
        ids = list(range(1, len(F) + 1))
        # crossing: 1-2 factors, no derived factor together with one of its (transitive) sources
        def sources(i):
            f = F[i - 1]
            if f["kind"] == "b":
                return {i}
            s = {i}
            for g in f["deps"]:
                s |= sources(g)
            return s
        for _ in range(10):
            X = sorted(rng.sample(ids, rng.choice([1, 2]) if len(ids) > 1 else 1))
            ok = all(not (sources(a) & sources(b)) for a in X for b in X if a != b)
            if ok:
                break
        else:
            continue
        size = 1
        for i in X:
            size *= len(F[i - 1]["levels"])
        pre = max([F[i - 1]["start"] for i in X if F[i - 1]["kind"] == "d"] + [0])
        # weights on crossed factors only
        if rng.random() < 0.3:
            i = rng.choice(X)
            F[i - 1]["w"][rng.randrange(len(F[i - 1]["w"]))] = 2
            size = 1
            for i2 in X:
                size *= sum(F[i2 - 1]["w"])
        T = pre + size
        cons = []
        if rng.random() < 0.3 and T < max_T:
            mt = rng.randrange(T + 1, max_T + 1)
            cons.append(K("MinimumTrials", k=mt))
            T = mt
        if T > max_T or T < min_T:
            continue
        # keep the search space enumerable: uncrossed basic factors multiply the solution count by nl^T
        unc = [i for i in ids if F[i - 1]["kind"] == "b" and i not in X]
        est = 1.0
        for i in unc:
            est *= len(F[i - 1]["levels"]) ** T
        import math
        est *= math.factorial(min(size, T)) if size <= 8 else 1e9
        if est > est_cap:
            continue
        nc = rng.choice([0, 1, 1, 2])
        rcc = True
        for _ in range(nc):
            kind = rng.choice(["AtMostKInARow", "AtMostKInARow", "AtLeastKInARow", "ExactlyKInARow", "ExactlyK",
                               "Pin", "Exclude", "Sequential"])
            fid = rng.choice(ids)
            f = F[fid - 1]
            cx = is_complex(F, fid)
            napp = T - f["start"] if f["kind"] == "d" else T   # trials where the factor applies
            l = rng.randrange(0, len(f["levels"]) + 1)
            if kind == "AtMostKInARow":
                cons.append(K(kind, k=rng.choice([1, 1, 2, 3]), f=fid, l=l))
            elif kind in ("AtLeastKInARow", "ExactlyKInARow"):
                k = rng.choice([1, 2, 2, 3])
                if k + 1 > napp:
                    continue
                cons.append(K(kind, k=k, f=fid, l=l))
            elif kind == "ExactlyK":
                if cx and rng.random() < 0.5:
                    continue
                cons.append(K(kind, k=rng.randrange(0, min(T, 4) + 1) if False else rng.randrange(1, min(T, 4) + 1), f=fid, l=l))
            elif kind == "Pin":
                if l == 0 or (cx and rng.random() < 0.5):
                    continue
                cons.append(K(kind, i=rng.choice([0, 1, T - 1, -1, -2, T, -T - 1]), f=fid, l=l))
            elif kind == "Exclude":
                if l == 0 or (cx and rng.random() < 0.5):
                    continue
                if any(c["c"] == "Exclude" and c["f"] == fid for c in cons):
                    continue
                cons.append(K(kind, f=fid, l=l))
                rcc = False
            elif kind == "Sequential":
                if f["kind"] != "b" or any(x != 1 for x in f["w"]):
                    continue
                cons.append(K(kind, f=fid))
        blk = cross(ids, X, cons, rcc)
        tags = sorted(set([c["c"] for c in cons] + [F[i - 1].get("dkind", "basic") for i in ids]))
        out.append(case(F, blk, "A", tags, "rnd-%d" % len(out)))
    return out


# ---------------------------------------------------------------------------------------------
# large designs (9..24 trials): beyond exhaustive set comparison; used by the simulation phase (checks_large.py)

def large_cases(rng, n_random=0):
    out = []

    def add(name, F, blk, tags):
        out.append(case(F, blk, "A", tags, "lg-" + name))

    for (nc, nw) in ((3, 3), (3, 4), (4, 4), (2, 5)):
        F = stroop(nc, nw)
        T = nc * nw
        add("stroop%dx%d" % (nc, nw), F, cross([1, 2, 3, 4], [1, 2]), ["within", "transition"])
        add("stroop%dx%d-atmost-cong" % (nc, nw), F, cross([1, 2, 3, 4], [1, 2], [K("AtMostKInARow", k=1, f=3, l=1)]),
            ["within", "AtMostKInARow"])
        add("stroop%dx%d-atmost-rep" % (nc, nw), F, cross([1, 2, 3, 4], [1, 2], [K("AtMostKInARow", k=1, f=4, l=1)]),
            ["transition", "AtMostKInARow"])
        add("stroop%dx%d-exk-rep" % (nc, nw), F, cross([1, 2, 3, 4], [1, 2], [K("ExactlyK", k=2, f=4, l=1)]),
            ["transition", "ExactlyK"])
        add("stroop%dx%d-atleast" % (nc, nw), F, cross([1, 2, 3, 4], [1, 2], [K("AtLeastKInARow", k=2, f=1, l=1)]),
            ["AtLeastKInARow"])
        add("stroop%dx%d-exrow" % (nc, nw), F, cross([1, 2, 3, 4], [1, 2], [K("ExactlyKInARow", k=2, f=3, l=2)]),
            ["ExactlyKInARow"])
        add("stroop%dx%d-pin-excl" % (nc, nw), F,
            cross([1, 2, 3, 4], [1, 2], [K("Pin", i=-1, f=1, l=1), K("Exclude", f=4, l=1)], rcc=False), ["Pin", "Exclude"])
        add("stroop%dx%d-mt" % (nc, nw), F, cross([1, 2, 3, 4], [1, 2], [K("MinimumTrials", k=T + 5)]), ["MinimumTrials"])
        add("stroop%dx%d-xrep" % (nc, nw), F, cross([1, 2, 3, 4], [2, 4]), ["transition-crossed"])
        add("stroop%dx%d-xcong" % (nc, nw), F, cross([1, 2, 3, 4], [3, 4], [K("MinimumTrials", k=10)]),
            ["derived-crossed", "MinimumTrials"])
        add("stroop%dx%d-xrep-excl" % (nc, nw), F, cross([1, 2, 3, 4], [2, 4], [K("Exclude", f=2, l=1)], rcc=False),
            ["transition-crossed", "Exclude"])
        add("stroop%dx%d-xrep-excl-cong" % (nc, nw), F, cross([1, 2, 3, 4], [2, 4], [K("Exclude", f=3, l=1)], rcc=False),
            ["transition-crossed", "Exclude-derived"])
    # window over a transition, in the crossing
    F = [basic("a", 3), basic("b", 2)]
    F.append(derived(F, "tr", [1], "transition", table=eq_table(F, [1], 2)))
    F.append(derived(F, "ww", [3], "window", width=2, table=eq_table(F, [3], 2)))
    add("win-over-trans", F, cross([1, 2, 3, 4], [2, 4], [K("MinimumTrials", k=10)]), ["window-of-window"])
    add("win-over-trans-x", F, cross([1, 2, 3, 4], [1, 4]), ["window-of-window"])
    add("win-over-trans-atmost", F, cross([1, 2, 3, 4], [1, 2], [K("AtMostKInARow", k=1, f=4, l=1), K("MinimumTrials", k=10)]),
        ["window-of-window", "AtMostKInARow"])
    # three basic factors, window of width 3, stride 2
    F = [basic("a", 2), basic("b", 3), basic("c", 2)]
    F.append(derived(F, "w3", [1], "window", width=3, table=eq_table(F, [1], 3)))
    F.append(derived(F, "s2", [2], "window", width=2, stride=2, table=eq_table(F, [2], 2)))
    add("abc-windows", F, cross([1, 2, 3, 4, 5], [1, 2, 3]), ["window3", "stride2"])
    add("abc-windows-atmost", F, cross([1, 2, 3, 4, 5], [1, 2, 3], [K("AtMostKInARow", k=2, f=4, l=2)]),
        ["window3", "AtMostKInARow"])
    add("abc-ab-seq", F, cross([1, 2, 3, 4, 5], [1, 2], [K("Sequential", f=3), K("MinimumTrials", k=12)]),
        ["Sequential", "MinimumTrials"])
    add("abc-xw3", F, cross([1, 2, 3, 4], [2, 4, 3]), ["window-crossed"])
    # combinators with sustain 1
    import gen_blocks as gb
    F = stroop(2, 3)
    inner = cross([1, 2, 3, 4], [1, 2], [K("AtMostKInARow", k=1, f=3, l=1)])
    add("repeat-stroop2x3", F, gb.rep(inner, [K("MinimumTrials", k=18)]), ["Repeat", "inner"])
    add("repeat-stroop2x3-part", F, gb.rep(inner, [K("MinimumTrials", k=15)]), ["Repeat", "inner", "partial-last"])
    add("repeat-in-min", F, gb.rep(dict(inner, cons=inner["cons"] + [K("MinimumTrials", k=12)])), ["Repeat", "inner-min"])
    add("repeat-out-atmost", F, gb.rep(cross([1, 2, 3, 4], [1, 2]),
                                      [K("MinimumTrials", k=12), K("AtMostKInARow", k=2, f=2, l=0)]), ["Repeat", "outer"])
    add("repeat-xrep-in-atmost", F, gb.rep(cross([1, 2, 3, 4], [2, 4], [K("AtMostKInARow", k=1, f=1, l=1)]),
                                           [K("MinimumTrials", k=14)]), ["Repeat", "transition-crossed", "inner"])
    add("repeat-xrep-in-exk", F, gb.rep(cross([1, 2, 3, 4], [2, 4], [K("ExactlyK", k=2, f=1, l=1)]),
                                        [K("MinimumTrials", k=14)]), ["Repeat", "transition-crossed", "inner"])
    add("repeat-xrep-in-pin", F, gb.rep(cross([1, 2, 3, 4], [2, 4], [K("Pin", i=0, f=1, l=1)]),
                                        [K("MinimumTrials", k=20)]), ["Repeat", "transition-crossed", "inner"])
    add("repeat-xrep-out-atmost", F, gb.rep(cross([1, 2, 3, 4], [2, 4], []),
                                            [K("MinimumTrials", k=14), K("AtMostKInARow", k=2, f=3, l=2)]),
        ["Repeat", "transition-crossed", "outer"])
    F = [basic("a", 3), basic("b", 3), basic("c", 2)]
    F.append(derived(F, "t", [3], "transition", table=eq_table(F, [3], 2)))
    add("multi-ab-ac", F, gb.multi([1, 2, 3, 4], [[1, 2], [1, 3]]), ["Multi"])
    add("multi-ab-bt", F, gb.multi([1, 2, 3, 4], [[1, 2], [2, 4]], [K("AtMostKInARow", k=2, f=1, l=0)]),
        ["Multi", "transition-crossed"])
    # Nest and Merge at 12-24 trials
    N = [basic("o", 3), basic("i", 2), basic("j", 2), basic("u", 2)]
    N.append(derived(N, "ij", [2, 3], "within", table=eq_table(N, [2, 3])))
    N.append(derived(N, "ri", [2], "transition", table=eq_table(N, [2], 2)))
    N.append(derived(N, "ro", [1], "transition", table=eq_table(N, [1], 2)))
    add("nest-o-ij", N, gb.nest(cross([1], [1]), cross([2, 3, 5], [2, 3])), ["Nest", "implied-derived"])
    add("nest-o-ij-atmost", N, gb.nest(cross([1], [1]), cross([2, 3, 5], [2, 3], [K("AtMostKInARow", k=1, f=5, l=1)])), ["Nest", "inner"])
    add("nest-ou-ij-outer-atmost", N, gb.nest(cross([1, 4], [1], [K("AtMostKInARow", k=1, f=1, l=1)]), cross([2, 3], [2, 3])),
        ["Nest", "outerblock", "outer-uncrossed"])
    add("nest-o-iri", N, gb.nest(cross([1], [1]), cross([2, 6], [2, 6])), ["Nest", "inner-preamble"])
    add("nest-oro-i", N, gb.nest(cross([1, 7], [1, 7]), cross([2], [2])), ["Nest", "outer-preamble"])
    add("nest-o-ij-on-exk", N, gb.nest(cross([1], [1]), cross([2, 3], [2, 3]), [K("ExactlyK", k=3, f=3, l=1)]), ["Nest", "outer"])
    add("merge-ij-o-repeat", N, gb.merge([cross([2, 3], [2, 3]), cross([1], [1])], [K("MinimumTrials", k=12)], "repeat", "equal"),
        ["Merge", "repeat"])
    add("merge-ij-o-weight", N, gb.merge([cross([2, 3], [2, 3], [K("AtMostKInARow", k=1, f=2, l=1)]), cross([1], [1])],
                                         [K("MinimumTrials", k=12)], "weight", "equal"), ["Merge", "weight", "inner"])
    add("merge-iri-o-post", N, gb.merge([cross([2, 6], [2, 6]), cross([1], [1])], [K("MinimumTrials", k=10)], "repeat", "post"),
        ["Merge", "post", "preamble"])
    for c in random_flat(rng, n_random, max_T=16, min_T=9, est_cap=1e30):
        c["id"] = "lg-" + c["id"]
        out.append(c)
    return out


# ---------------------------------------------------------------------------------------------
# C23: weighted levels (crossed, uncrossed, on derived levels, referenced by derived factors and constraints)

def weighted_cases(rng, n):
    out = []
    tries = 0
    while len(out) < n and tries < n * 40:
        tries += 1
        F = [basic("a", 2), basic("b", rng.choice([2, 3])), basic("c", 2)]
        F.append(derived(F, "d", [1, 2], "within", nl=2, rng=rng))
        F.append(derived(F, "t", [rng.choice([1, 2])], "transition", nl=2, rng=rng))
        design = [1, 2, 3, 4, 5] if rng.random() < 0.5 else [1, 2, 4]
        X = sorted(rng.sample([i for i in design if i != 4] if rng.random() < 0.7 else design, rng.choice([1, 2])))
        if 4 in X and (1 in X or 2 in X):
            continue
        # weights: one or two factors, crossed or not, possibly a derived level
        for i in rng.sample(design, rng.choice([1, 2])):
            if F[i - 1]["kind"] == "d" and i not in X and rng.random() < 0.7:
                continue
            F[i - 1]["w"][rng.randrange(len(F[i - 1]["w"]))] = rng.choice([2, 2, 3])
        size = 1
        for i in X:
            size *= sum(F[i - 1]["w"])
        pre = max([F[i - 1]["start"] for i in X if F[i - 1]["kind"] == "d"] + [0])
        T = pre + size
        cons = []
        if rng.random() < 0.3 and T < 7:
            T = rng.randrange(T + 1, 8)
            cons.append(K("MinimumTrials", k=T))
        if T > 7:
            continue
        unc = [i for i in design if F[i - 1]["kind"] == "b" and i not in X]
        est = 1.0
        for i in unc:
            est *= sum(F[i - 1]["w"]) ** T
        if est > 3000:
            continue
        for _ in range(rng.choice([0, 1, 1])):
            kind = rng.choice(["AtMostKInARow", "ExactlyK", "Pin", "AtMostKInARow"])
            fid = rng.choice([i for i in design if not is_complex(F, i)])
            l = rng.randrange(1, len(F[fid - 1]["levels"]) + 1)
            if kind == "AtMostKInARow":
                cons.append(K(kind, k=rng.choice([1, 2]), f=fid, l=rng.choice([0, l])))
            elif kind == "ExactlyK":
                cons.append(K(kind, k=rng.randrange(1, 3), f=fid, l=l))
            else:
                cons.append(K(kind, i=rng.choice([0, -1, 1]), f=fid, l=l))
        out.append(case(F, cross(design, X, cons, True), "B", ["weights"] + [c["c"] for c in cons], "w-%d" % len(out)))
    return out


# ---------------------------------------------------------------------------------------------
# C15: derived-factor predicates over small windows - total / ambiguous / partial, ElseLevel, start, stride

def derivation_cases(rng, n_random=0):
    out = []
    B = [basic("a", 2), basic("b", 2)]

    def mk(name, fac, crossing, tags, cons=()):
        F = B + [fac]
        out.append(case(F, cross([1, 2, 3], crossing, list(cons)), "D", tags, "drv-%s" % name))

    dom1 = window_domain(B, [1, 2], 1)            # 4 tuples
    # every assignment of the 4 within-trial tuples to {level 1, level 2, both, none}: total/ambiguous/partial
    import itertools as it
    k = 0
    for assign in it.product(("1", "2", "12", ""), repeat=4):
        if k % 5 != 0 and assign.count("12") + assign.count("") > 0:     # thin out the ill-formed ones
            k += 1
            continue
        k += 1
        t1 = [t for t, a in zip(dom1, assign) if "1" in a]
        t2 = [t for t, a in zip(dom1, assign) if "2" in a]
        kind = "ambiguous" if "12" in assign else ("partial" if "" in assign else "total")
        f = derived(B, "d", [1, 2], "within", table=[t1, t2])
        mk("within-%s" % "".join(a or "0" for a in assign).replace("12", "B"), f, [1], ["derivation", kind])
    # ElseLevel completes a partial table
    for t1 in ([dom1[0]], [dom1[0], dom1[3]], []):
        f = derived(B, "d", [1, 2], "within", table=[t1, []], else_level=2)
        mk("else-%d" % len(t1), f, [1, 2], ["derivation", "else"])
    # transitions / windows with default start, start before the default (None inputs) and after it, stride 2
    domt = window_domain(B, [1], 2)
    f = derived(B, "d", [1], "transition", table=eq_table(B, [1], 2))
    mk("transition", f, [1], ["derivation", "transition"])
    mk("transition-x", f, [2, 3], ["derivation", "transition", "crossed"])
    for start in (0, 1, 2, 3):
        np_ = none_positions(B, [1], 2, start)
        dom = window_domain(B, [1], 2, np_)
        same = [t for t in dom if t[0] == t[1]]
        rest = [t for t in dom if t[0] != t[1]]
        f = derived(B, "d", [1], "window", width=2, start=start, table=[same, rest])
        tags = ["derivation", "window", "start%d" % start] + (["start-before-default"] if start < 1 else [])
        mk("win2-start%d" % start, f, [1], tags)
        mk("win2-start%d-x" % start, f, [2, 3], tags + ["crossed"])
        f2 = derived(B, "d", [1], "window", width=2, start=start, table=[same, []], else_level=2)
        mk("win2-start%d-else" % start, f2, [1], tags + ["else"])
    for stride in (2, 3):
        f = derived(B, "d", [1], "window", width=2, stride=stride, table=eq_table(B, [1], 2))
        mk("win2-stride%d" % stride, f, [1, 2], ["derivation", "window", "stride"], [K("MinimumTrials", k=6)])
        f1 = derived(B, "d", [1, 2], "window", width=1, stride=stride, table=eq_table(B, [1, 2], 1))
        mk("win1-stride%d" % stride, f1, [1, 2], ["derivation", "window", "stride"], [K("MinimumTrials", k=6)])
    f = derived(B, "d", [1], "window", width=3, table=eq_table(B, [1], 3))
    mk("win3", f, [1], ["derivation", "window", "width3"], [K("MinimumTrials", k=5)])
    # width 3 with a start before the full window: the window is only partly before trial 0 at trial 1 (None, x, y);
    # an n-back style table that looks at the positions that DO exist
    for start in (0, 1):
        np_ = none_positions(B, [1], 3, start)
        dom = window_domain(B, [1], 3, np_)
        back1 = [t for t in dom if t[1] != 0 and t[1] == t[2]]
        back2 = [t for t in dom if t not in back1 and t[0] != 0 and t[0] == t[2]]
        fresh = [t for t in dom if t not in back1 and t not in back2]
        f = derived(B, "d", [1], "window", width=3, start=start, nl=3, table=[back1, back2, fresh])
        mk("win3-start%d" % start, f, [1], ["derivation", "window", "width3", "start-before-default"], [K("MinimumTrials", k=4)])
        mk("win3-start%d-x" % start, f, [3], ["derivation", "window", "width3", "start-before-default", "crossed"])
        mk("win3-start%d-exk" % start, f, [1], ["derivation", "window", "width3", "start-before-default", "ExactlyK"],
           [K("MinimumTrials", k=4), K("ExactlyK", k=1, f=3, l=1)])
    # partial / ambiguous transitions
    f = derived(B, "d", [1], "transition", table=[[[1, 1]], [[1, 2], [2, 1]]])
    mk("transition-partial", f, [1], ["derivation", "partial", "transition"])
    f = derived(B, "d", [1], "transition", table=[[[1, 1], [2, 2]], [[1, 2], [2, 1], [2, 2]]])
    mk("transition-ambiguous", f, [1], ["derivation", "ambiguous", "transition"])
    for j in range(n_random):
        deps = sorted(rng.sample([1, 2], rng.choice([1, 2])))
        dk = rng.choice(["within", "transition", "window"])
        width = 1 if dk == "within" else 2
        dom = window_domain(B, deps, width)
        t1, t2 = [], []
        for t in dom:
            r = rng.random()
            if r < 0.46:
                t1.append(t)
            elif r < 0.92:
                t2.append(t)
            elif r < 0.96:
                t1.append(t)
                t2.append(t)
        f = derived(B, "d", deps, dk, width=width, table=[t1, t2])
        mk("rnd-%d" % j, f, [rng.choice([1, 2])], ["derivation", "random"])
    return out


# ---------------------------------------------------------------------------------------------
# C22 / C19: designs with continuous factors

def continuous_cases(rng, n):
    out = []
    for j in range(n):
        F = [basic("a", 2), basic("b", rng.choice([2, 3]))]
        X = [1] if rng.random() < 0.5 else [1, 2]
        T = 2 if X == [1] else 2 * len(F[1]["levels"])
        cons = []
        if rng.random() < 0.4:
            T = rng.randrange(T, 7)
            cons.append(K("MinimumTrials", k=T))
        cont = []
        names = []
        custom = rng.random() < 0.8
        nf = rng.choice([1, 2, 3])
        for ci in range(nf):
            name = "x%d" % (ci + 1)
            if not custom:
                cont.append({"name": name, "dist": rng.choice(["uniform", "gaussian", "exponential"]),
                             "args": {"uniform": [0, 10], "gaussian": [5, 2], "exponential": [1]}[cont[-1]["dist"] if False else "uniform"],
                             "deps": []})
                cont[-1]["args"] = {"uniform": [0, 10], "gaussian": [5, 2], "exponential": [1]}[cont[-1]["dist"]]
                names.append(name)
                continue
            deps = []
            choices = ["none", "d", "d"] + (["c", "w", "w"] if names else [])
            kind = rng.choice(choices)
            if kind == "d":
                deps.append({"k": "d", "f": rng.choice([1, 2])})
            elif kind == "c":
                deps.append({"k": "c", "name": rng.choice(names)})
                if rng.random() < 0.5:
                    deps.append({"k": "d", "f": rng.choice([1, 2])})
            elif kind == "w":
                width = rng.choice([1, 2, 3])
                start = rng.choice([None, None, 0, width - 1, width])
                wn = [rng.choice(names)] if len(names) < 2 or rng.random() < 0.6 else list(names[:2])
                deps.append({"k": "w", "names": wn, "width": width, "stride": rng.choice([1, 1, 2]), "start": start})
            cont.append({"name": name, "dist": "custom", "deps": deps, "cumulative": rng.random() < 0.25,
                         "stream": [rng.randrange(0, 6) for _ in range(37)]})
            names.append(name)
        blk = cross([1, 2], X, cons)
        blk["cont"] = list(names)
        ncon = rng.choice([0, 1, 1, 2])
        for _ in range(ncon):
            if custom:
                if len(names) >= 2 and rng.random() < 0.4:
                    a, b = rng.sample(names, 2)
                    blk["cons"].append({"c": "Continuous", "names": [a, b], "pred": {"op": rng.choice(["lt2", "sumle"]), "k": rng.randrange(6, 30)}})
                else:
                    blk["cons"].append({"c": "Continuous", "names": [rng.choice(names)],
                                        "pred": {"op": rng.choice(["lt", "ne"]), "k": rng.choice([3, 4, 5, 20, 40])}})
            else:
                blk["cons"].append({"c": "Continuous", "names": [rng.choice(names)], "pred": {"op": "lt", "k": rng.choice([6, 8, 9])}})
        cs = case(F, blk, "A", ["continuous"] + (["custom"] if custom else ["builtin"]), "cont-%d" % j)
        cs["continuous"] = cont
        out.append(cs)
    return out


# ---------------------------------------------------------------------------------------------
# C29: designs inside SMGen's supported fragment (no unsupported constraints, single crossing,
# WithinTrial / Transition derivations with arbitrary - in particular direction-sensitive - tables)

def smgen_cases(rng, n):
    out = []
    # systematic: a direction-sensitive transition (clockwise / counter / stay over 3 colours), crossed
    F = [basic("color", 3), basic("size", 2)]
    tab = [[], [], []]
    for a in (1, 2, 3):
        for b in (1, 2, 3):
            tab[0 if b == a % 3 + 1 else (1 if a == b % 3 + 1 else 2)].append([a, b])
    F.append(derived(F, "dir", [1], "transition", nl=3, table=tab))
    out.append(case(F, cross([1, 2, 3], [2, 3]), "A", ["smgen", "asymmetric-transition", "crossed"], "smg-dir-crossed"))
    out.append(case(F, cross([1, 2, 3], [1, 3]), "A", ["smgen", "asymmetric-transition", "crossed"], "smg-dir-crossed-src"))
    out.append(case(F, cross([1, 2, 3], [1, 2]), "A", ["smgen", "asymmetric-transition"], "smg-dir-uncrossed"))
    # weights on levels of crossed derived factors (first / later level), of crossed basic factors, three-level weights
    G = [basic("color", 2), basic("size", 2)]
    for wname, ws in (("w21", [2, 1]), ("w12", [1, 2]), ("w13", [1, 3])):
        Gt = G + [derived(G, "rep", [1], "transition", table=eq_table(G, [1], 2), w=ws)]
        out.append(case(Gt, cross([1, 2, 3], [2, 3]), "A", ["smgen", "weighted-transition", "crossed"], "smg-trans-%s" % wname))
        Gw = G + [derived(G, "cong", [1, 2], "within", table=eq_table(G, [1, 2]), w=ws)]
        out.append(case(Gw, cross([1, 2, 3], [3]), "A", ["smgen", "weighted-within", "crossed"], "smg-within-%s" % wname))
    F3w = [basic("color", 3), basic("size", 2)]
    F3w.append(derived(F3w, "dir", [1], "transition", nl=3, table=tab, w=[2, 1, 3]))
    out.append(case(F3w, cross([1, 2, 3], [2, 3]), "A", ["smgen", "weighted-transition", "three-levels"], "smg-dir-w213"))
    Gb = [basic("color", 2, [1, 2]), basic("size", 3, [1, 1, 2])]
    out.append(case(Gb, cross([1, 2], [1, 2]), "A", ["smgen", "weighted-basic"], "smg-basic-weights"))
    tries = 0
    base = len(out)
    while len(out) < n + base and tries < n * 30:
        tries += 1
        F = [basic("a", rng.choice([2, 3])), basic("b", 2)]
        if rng.random() < 0.5:
            F.append(basic("c", 2))
        nb = len(F)
        F.append(derived(F, "w", sorted(rng.sample(range(1, nb + 1), 2)), "within", nl=2, rng=rng))
        F.append(derived(F, "t", [rng.randrange(1, nb + 1)], "transition", nl=rng.choice([2, 2, 3]), rng=rng))
        ids = list(range(1, len(F) + 1))
        X = sorted(rng.sample(ids, rng.choice([1, 2])))
        srcs = set()
        ok = True
        for i in X:
            s = set(F[i - 1].get("deps", [i]))
            if s & srcs:
                ok = False
            srcs |= s
        if not ok:
            continue
        if rng.random() < 0.3:
            i = rng.choice([i for i in ids if F[i - 1]["kind"] == "b"])
            F[i - 1]["w"][0] = 2
        cons = [K("MinimumTrials", k=rng.randrange(3, 9))] if rng.random() < 0.3 else []
        out.append(case(F, cross(ids, X, cons), "A", ["smgen", "random"], "smg-%d" % len(out)))
    return out
