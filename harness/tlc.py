"""Run TLC on one of the specifications of /verif/spec and collect its verdict records."""
import json
import os
import re
import shutil
import subprocess
import tempfile
import time

ROOT = os.path.dirname(os.path.dirname(os.path.abspath(__file__)))
SPEC = os.path.join(ROOT, "spec")
WORK = os.path.join(ROOT, ".work")
JARS = "/opt/veriftools/tla/tla2tools.jar:/opt/veriftools/tla/CommunityModules-deps.jar"


class TLCError(Exception):
    pass


class TLCResult:
    def __init__(self):
        self.records = []
        self.states = 0
        self.distinct = 0
        self.wall = 0.0
        self.stdout = ""
        self.violation = None
        self.coverage = {}


_IDENT = re.compile(r"[A-Za-z_][A-Za-z0-9_]*")
_INT = re.compile(r"-?\d+")


def parse_value(s, i=0):
    """Parse a TLA+ value printed by TLC (tuples, sets, strings, ints, booleans, records)."""
    n = len(s)

    def ws(i):
        while i < n and s[i] in " \n\r\t":
            i += 1
        return i

    i = ws(i)
    if s.startswith("<<", i):
        i += 2
        out = []
        i = ws(i)
        if s.startswith(">>", i):
            return out, i + 2
        while True:
            v, i = parse_value(s, i)
            out.append(v)
            i = ws(i)
            if s.startswith(">>", i):
                return out, i + 2
            if s[i] != ",":
                raise ValueError("expected , at %d: %r" % (i, s[i:i + 20]))
            i += 1
    if s[i] == "{":
        i += 1
        out = []
        i = ws(i)
        if s[i] == "}":
            return {"set": out}, i + 1
        while True:
            v, i = parse_value(s, i)
            out.append(v)
            i = ws(i)
            if s[i] == "}":
                return {"set": out}, i + 1
            if s[i] != ",":
                raise ValueError("expected , in set at %d" % i)
            i += 1
    if s[i] == "[":
        i += 1
        out = {}
        while True:
            i = ws(i)
            m = _IDENT.match(s, i)
            key = m.group(0)
            i += len(key)
            i = ws(i)
            if not s.startswith("|->", i):
                raise ValueError("expected |-> at %d" % i)
            i += 3
            v, i = parse_value(s, i)
            out[key] = v
            i = ws(i)
            if s[i] == "]":
                return out, i + 1
            if s[i] != ",":
                raise ValueError("expected , in record at %d" % i)
            i += 1
    if s[i] == '"':
        j = i + 1
        buf = []
        while s[j] != '"':
            if s[j] == "\\":
                j += 1
            buf.append(s[j])
            j += 1
        return "".join(buf), j + 1
    m = _INT.match(s, i)
    if m:
        return int(m.group(0)), i + len(m.group(0))
    if s.startswith("TRUE", i):
        return True, i + 4
    if s.startswith("FALSE", i):
        return False, i + 5
    raise ValueError("cannot parse at %d: %r" % (i, s[i:i + 30]))


def extract_records(out, tags):
    recs = []
    pat = re.compile(r"<<\s*\"(%s)\"" % "|".join(tags))
    pos = 0
    while True:
        m = pat.search(out, pos)
        if not m:
            break
        try:
            v, end = parse_value(out, m.start())
            recs.append(v)
            pos = end
        except Exception:
            pos = m.end()
    return recs


def run(module, cfg, env=None, workers=16, timeout=1200, tags=("V", "NB", "MISSING"),
        simulate=None, depth=None, extra=(), coverage=False, check_deadlock=False, keep=False):
    """Run TLC.  Returns TLCResult.  Raises TLCError on a TLC failure that is not an invariant violation."""
    os.makedirs(WORK, exist_ok=True)
    meta = tempfile.mkdtemp(prefix="tlc_", dir=WORK)
    cmd = ["java", "-Xss512m", "-Xmx12g", "-XX:+UseParallelGC", "-cp", JARS, "tlc2.TLC",
           "-workers", str(workers), "-metadir", meta, "-noGenerateSpecTE",
           "-config", os.path.join(SPEC, cfg)]
    if simulate:
        cmd += ["-simulate", simulate]
    if depth:
        cmd += ["-depth", str(depth)]
    if coverage:
        cmd += ["-coverage", "1"]
    cmd += list(extra)
    cmd.append(os.path.join(SPEC, module))
    e = dict(os.environ)
    e.update(env or {})
    t0 = time.time()
    try:
        p = subprocess.run(cmd, cwd=SPEC, env=e, capture_output=True, text=True, timeout=timeout)
    except subprocess.TimeoutExpired as ex:
        shutil.rmtree(meta, ignore_errors=True)
        raise TLCError("TLC timeout after %ss: %s" % (timeout, module))
    finally:
        if not keep:
            shutil.rmtree(meta, ignore_errors=True)
    r = TLCResult()
    r.wall = time.time() - t0
    r.stdout = p.stdout
    m = re.findall(r"(\d+) states generated, (\d+) distinct states found", p.stdout)
    if m:
        r.states, r.distinct = int(m[-1][0]), int(m[-1][1])
    r.records = extract_records(p.stdout, tags)
    if "Invariant" in p.stdout and "is violated" in p.stdout:
        mm = re.search(r"Invariant (\w+) is violated", p.stdout)
        r.violation = mm.group(1) if mm else "?"
    elif "Model checking completed. No error has been found" not in p.stdout and not simulate:
        tail = p.stdout[-3000:]
        raise TLCError("TLC failed (%s, rc=%s):\n%s\n%s" % (module, p.returncode, tail, p.stderr[-1000:]))
    if coverage:
        for mm in re.finditer(r"<(\w+) line \d+, col \d+ to line \d+, col \d+ of module (\w+)>: (\d+):(\d+)", p.stdout):
            r.coverage[mm.group(1)] = r.coverage.get(mm.group(1), 0) + int(mm.group(4))
    return r


def normalise(cases_path, timeout=900):
    """phase 0: run MCNorm on a cases file; returns the path of the serialised normal forms"""
    norm_path = cases_path + ".norm"
    run("MCNorm.tla", "MCNorm.cfg", env={"VERIF_CASES": cases_path, "VERIF_NORM": norm_path}, workers=1,
        timeout=timeout, tags=())
    return norm_path


def run_with_norm(module, cfg, cases_path, env=None, **kw):
    norm = normalise(cases_path)
    e = {"VERIF_CASES": cases_path, "VERIF_NORM": norm}
    e.update(env or {})
    try:
        return run(module, cfg, env=e, **kw)
    finally:
        try:
            os.unlink(norm)
        except OSError:
            pass


def write_cases(cases, name="cases"):
    os.makedirs(WORK, exist_ok=True)
    fd, path = tempfile.mkstemp(prefix=name + "_", suffix=".json", dir=WORK)
    with os.fdopen(fd, "w") as f:
        json.dump(cases, f)
    return path
