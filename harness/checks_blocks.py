"""C24 C25 C26: combinator properties; oracle = Blocks.tla (definitions R5-R8) + Design.tla."""
import json
import os
import random
import time

import common
import gen_blocks
import pipeline
import tlc
from checks_design import (Coverage, SAT, RND, judge_build, judge_sound, judge_complete, judge_distinct, judge_unsat,
                           judge_raised, sample_of, batches, canon)
from common import violation


def _judge_sets(prop, r, out, strategies=(1,)):
    ok = judge_build(prop, r, out)
    if not ok:
        return False
    for oi in strategies:
        if oi >= len(r.obs):
            continue
        o = r.obs[oi]
        judge_raised(prop, r, oi, out)
        if o["status"] != "returned":
            continue
        judge_sound(prop, r, oi, out)
        judge_unsat(prop, r, oi, out)
        judge_complete(prop, r, oi, out)
    return True


def c24(tier, seed):
    t0 = time.time()
    cov, out, err = Coverage(), [], None
    try:
        pairs = gen_blocks.law_pairs()
        cases = []
        for name, l, r in pairs:
            cases += [l, r]

        def ops(c):
            return [{"op": "synth", "strategy": SAT, "n": pipeline.CAP, "exhaust": True}]
        res = []
        for batch in batches(cases, 200):
            res += pipeline.run_design(batch, ops, stats=cov.stats)
        byid = {r.case["id"]: r for r in res}
        acases, amap = [], []
        for name, l, r in pairs:
            rl, rr = byid[l["id"]], byid[r["id"]]
            # each side against the specification (in which both sides have ONE meaning, R7)
            _judge_sets("C24", rl, out)
            _judge_sets("C24", rr, out)
            bl, br = rl.obs[0], rr.obs[0]
            if bl["status"] != br["status"]:
                out.append(violation("C24", "law", l, law=name, lhs=bl["status"], rhs=br["status"],
                                     exc=(bl.get("exc") or br.get("exc")), site=(bl.get("site") or br.get("site")),
                                     detail="one side of a documented equivalence is refused: %s" % (bl.get("msg") or br.get("msg"))))
                cov.add_case(rl, False)
                continue
            if bl["status"] != "built":
                cov.add_case(rl, False)
                continue
            if bl["T"] != br["T"]:
                out.append(violation("C24", "law", l, law=name, detail="trial counts differ", lhs=bl["T"], rhs=br["T"]))
            ol, orr = rl.obs[1] if len(rl.obs) > 1 else None, rr.obs[1] if len(rr.obs) > 1 else None
            if not ol or not orr or ol["status"] != "returned" or orr["status"] != "returned":
                cov.add_case(rl, False)
                continue
            if ol["count"] >= ol["n"] or orr["count"] >= orr["n"]:
                cov.add_case(rl, False)
                continue
            acases.append({"a": [e["s"] for e in ol["exps"]], "b": [e["s"] for e in orr["exps"]]})
            amap.append((name, rl, rr))
            cov.add_case(rl, ol["count"] > 0)
        # the two implementation sets compared directly by TLC (no reading of the documentation involved)
        if acases:
            path = tlc.write_cases(acases, "agree")
            ar = tlc.run("MCAgree.tla", "MCAgree.cfg", env={"VERIF_CASES": path}, tags=("DIFF", "SAME"))
            os.unlink(path)
            cov.stats["states"] = cov.stats.get("states", 0) + ar.distinct
            cov.stats["transitions"] = cov.stats.get("transitions", 0) + ar.states
            seen = set()
            for rec in ar.records:
                if rec[0] == "DIFF" and rec[1] not in seen:
                    seen.add(rec[1])
                    name, rl, rr = amap[rec[1] - 1]
                    out.append(violation("C24", "law", rl.case, law=name, detail="solution sets differ",
                                         lhs=rl.obs[1]["count"], rhs=rr.obs[1]["count"], only=rec[2], example=rec[3]))
                elif rec[0] == "SAME" and rec[2] and rec[3] > 0:
                    name, rl, rr = amap[rec[1] - 1]
                    cov.sample({"law": name, "lhs": rl.case["block"], "rhs": rr.case["block"], "common_set_size": rec[3]})
    except tlc.TLCError as e:
        err = str(e)[:2000]
    return common.finish("C24", tier, seed, "model_checking", out, cov.as_dict(
        "every documented law instance (MultiCrossBlock vs Merge of CrossBlocks for all modes x alignments x constraint sets, "
        "Repeat vs Merge REPEAT/EQUAL_PREAMBLE, Repeat(b,[]) vs b, Merge([b]) vs b, CrossBlock vs single-crossing MultiCrossBlock) "
        "is built twice from fresh objects; both exhausted IterateSATGen sets are (a) validated and enumerated against Blocks.tla, "
        "where both sides are one definition, and (b) compared with each other by TLC (MCAgree); non-trivial = non-empty common set"),
        t0, machinery_error=err)


def _tagged(tag_any):
    def f(c):
        return any(t in c.get("tags", []) for t in tag_any)
    return f


def _design_prop(prop, tier, seed, filt, rule, strategies=(SAT, RND), literal=None):
    t0 = time.time()
    cov, out, err = Coverage(), [], None
    try:
        if literal and not common.replay_cases():
            law_literal_check(prop, literal, cov, out)
        rng = random.Random(seed)
        cases = [c for c in gen_blocks.systematic_blocks() + gen_blocks.weighted_blocks() if filt(c)]
        n = 40 if tier == "quick" else 600
        cases += [c for c in gen_blocks.random_blocks(rng, n) if filt(c)]
        cases += common.witness_cases(prop)
        cases = common.replay_cases() or cases

        def ops(c):
            return [{"op": "synth", "strategy": s, "n": pipeline.CAP, "exhaust": True, "timeout": 30} for s in strategies]
        for batch in batches(cases, 200):
            for r in pipeline.run_design(batch, ops, stats=cov.stats):
                if not _judge_sets(prop, r, out, strategies=range(1, len(strategies) + 1)):
                    cov.add_case(r, False)
                    continue
                nt = any(oi in r.enumerated and r.obs[oi]["count"] > 0 for oi in range(1, len(r.obs)))
                cov.add_case(r, nt)
                if nt:
                    cov.sample(sample_of(r, 1))
    except tlc.TLCError as e:
        err = str(e)[:2000]
    if not err and len(cov.nontrivial) < 2 and not common.replay_cases():
        err = "vacuity guard: fewer than 2 non-trivial cases"
    return common.finish(prop, tier, seed, "model_checking", out, cov.as_dict(rule), t0, machinery_error=err)


def law_literal_check(prop, kind, cov, out):
    """specification self-check against the property text: MCLaws compares Design!Valid with the literal statement
    (NestGroups / PerRepetition) on every complete sequence of tiny designs"""
    from gen import basic, cross, K, case
    import export
    cases = []
    if kind == "Nest":
        F = [basic("o", 2), basic("i", 2), basic("u", 2)]
        ib = [cross([2], [2]), cross([2], [2], [K("AtMostKInARow", k=1, f=2, l=1)]), cross([2, 3], [2]),
              cross([2], [2], [K("Pin", i=0, f=2, l=2)])]
        for k, inner in enumerate(ib):
            cases.append(case(F, gen_blocks.nest(cross([1], [1]), inner), "C", ["Nest", "literal"], "lit-nest-%d" % k))
        F3 = [basic("o", 3), basic("i", 2)]
        cases.append(case(F3, gen_blocks.nest(cross([1], [1]), cross([2], [2])), "C", ["Nest", "literal"], "lit-nest-32"))
    else:
        F = [basic("a", 2), basic("b", 2)]
        inners = [cross([1], [1]), cross([1], [1], [K("AtMostKInARow", k=1, f=1, l=1)]), cross([1, 2], [1], [K("Pin", i=0, f=2, l=1)]),
                  cross([1, 2], [1], [K("ExactlyK", k=1, f=2, l=1)]), cross([1, 2], [1], [K("AtLeastKInARow", k=2, f=2, l=1)])]
        outers = [[], [K("AtMostKInARow", k=1, f=1, l=1)], [K("AtMostKInARow", k=2, f=2, l=0)], [K("Pin", i=-1, f=2, l=2)],
                  [K("ExactlyK", k=2, f=2, l=1)]]
        n = 0
        for inner in inners:
            for oc in outers:
                if any(k["f"] not in inner["design"] for k in oc):
                    continue
                for m in (4, 6):
                    cases.append(case(F, gen_blocks.rep(inner, [K("MinimumTrials", k=m)] + oc), "C", ["Repeat", "literal"], "lit-rep-%d" % n))
                    n += 1
    tcases = [export.tlc_case(c, enum=True) for c in cases]
    path = tlc.write_cases(tcases, "laws")
    try:
        r = tlc.run_with_norm("MCLaws.tla", "MCLaws.cfg", path, tags=("LAW", "LAWOK"), timeout=1500)
    finally:
        os.unlink(path)
    cov.stats["states"] = cov.stats.get("states", 0) + r.distinct
    cov.stats["transitions"] = cov.stats.get("transitions", 0) + r.states
    nvalid = sum(1 for rec in r.records if rec[0] == "LAWOK")
    cov.notes["literal_statement"] = {"designs": len(cases), "sequences_judged": r.distinct, "valid_sequences": nvalid}
    bad = [rec for rec in r.records if rec[0] == "LAW"]
    if bad:
        rec = bad[0]
        raise tlc.TLCError("specification self-check failed (%s): Design!Valid=%s but the literal statement=%s on %s of %s"
                           % (prop, rec[2], rec[3], rec[4], cases[rec[1] - 1]["id"]))
    if nvalid < 10:
        raise tlc.TLCError("literal-statement check is vacuous (%d valid sequences)" % nvalid)


def c25(tier, seed):
    return _design_prop("C25", tier, seed, _tagged(["Nest"]),
                        "Nest designs (systematic: outer/inner free factors, constraints in the outer block, inner block and on the "
                        "Nest, nested Nest left and right, outer MultiCrossBlock; plus seeded random ones): exhausted IterateSATGen and "
                        "RandomGen sets validated (MCTrace, clauses sustain/crossing/constraints of rule R8) and compared with the "
                        "enumeration of Design behaviours; trial count from Blocks!NestNB; in addition MCLaws compares Design!Valid "
                        "with the literal statement NestGroups on every sequence of tiny Nest designs", literal="Nest")


def c26(tier, seed):
    return _design_prop("C26", tier, seed, _tagged(["inner", "outer", "Repeat", "Merge"]),
                        "the same constraint placed inside the repeated/merged/nested block and on the combinator, for every constraint "
                        "kind, with and without preamble and with trailing partial repetitions: exhausted sets of both samplers against "
                        "the windows of rule R6 (Blocks!Windows) by MCTrace + MCEnum; in addition MCLaws compares Design!Valid with "
                        "the literal statement PerRepetition on every sequence of tiny Repeat designs", literal="Repeat")


CHECKS = {"C24": c24, "C25": c25, "C26": c26}
