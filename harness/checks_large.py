"""Large designs (9..24 trials): specification -> code by simulation, code -> specification by traces.

Set comparison (MCEnum against the exhausted IterateSATGen set) stops at a few hundred solutions.  For larger
designs the two directions are decided sequence by sequence:

  1. TLC runs MCEnum in simulation mode (random walks of the Design generator, pruned by PrefixOK); every accepted
     behaviour is printed (SIM records).
  2. candidates = those behaviours + seeded perturbations of them (swap two trials, overwrite a trial with another,
     change one basic cell - each with the derived cells recomputed from the truth tables - and change one derived
     cell alone).  The perturbation is only candidate generation: it decides nothing.
  3. MCTrace gives the verdict of every candidate (total: "ok" or the name of the violated clause).
  4. the implementation compiles the block once and is asked, per candidate, whether its formula with the whole
     candidate pinned is satisfiable (is_cnf_still_sat / build_cnf + cnf_is_satisfiable).
     C02 (completeness): verdict ok   => satisfiable.
     C01 (soundness):    satisfiable  => verdict ok.
  5. sequences sampled by IterateSATGen / CMSGen / RandomGen on the same designs are validated by MCTrace as well.
"""
import os
import random

import common
import export
import gen
import impl
import tlc
from common import violation


def rederive(case, rows):
    """recompute derived cells from the truth tables (candidate generation only; flat, sustain 1)"""
    F = case["factors"]
    design = set(__import__("ir").design_ids(case["block"]))
    rows = [list(r) for r in rows]

    def applies(i, t):
        f = F[i - 1]
        if f["kind"] == "b":
            return True
        return t >= f["start"] and (t - f["start"]) % f["stride"] == 0

    for t in range(len(rows)):
        for i in range(1, len(F) + 1):
            f = F[i - 1]
            if f["kind"] != "d" or i not in design:
                continue
            if not applies(i, t):
                rows[t][i - 1] = 0
                continue
            tp = []
            for g in f["deps"]:
                for off in range(f["width"]):
                    u = t - (f["width"] - 1 - off)
                    tp.append(rows[u][g - 1] if u >= 0 and applies(g, u) else 0)
            lvl = [l + 1 for l, a in enumerate(f["acc"]) if tp in [list(x) for x in a]]
            if len(lvl) == 1:
                rows[t][i - 1] = lvl[0]
            elif not lvl and f.get("else", 0):
                rows[t][i - 1] = f["else"]
    return rows


def perturb(case, rows, rng, n):
    F = case["factors"]
    design = __import__("ir").design_ids(case["block"])
    basics = [i for i in design if F[i - 1]["kind"] == "b"]
    deriveds = [i for i in design if F[i - 1]["kind"] == "d"]
    T = len(rows)
    out = []
    for _ in range(n):
        kind = rng.choice(["swap", "swap", "copy", "cell", "cell", "dcell"])
        r = [list(x) for x in rows]
        if kind == "swap" and T >= 2:
            a, b = rng.sample(range(T), 2)
            r[a], r[b] = r[b], r[a]
            r = rederive(case, r)
        elif kind == "copy" and T >= 2:
            a, b = rng.sample(range(T), 2)
            r[a] = list(r[b])
            r = rederive(case, r)
        elif kind == "cell" and basics:
            t = rng.randrange(T)
            i = rng.choice(basics)
            nl = len(F[i - 1]["levels"])
            r[t][i - 1] = (r[t][i - 1] % nl) + 1
            r = rederive(case, r)
        elif kind == "dcell" and deriveds:
            i = rng.choice(deriveds)
            ts = [t for t in range(T) if r[t][i - 1] > 0]
            if not ts:
                continue
            t = rng.choice(ts)
            nl = len(F[i - 1]["levels"])
            r[t][i - 1] = (r[t][i - 1] % nl) + 1
        else:
            continue
        if r != rows:
            out.append((kind, r))
    return out


def run_large(prop, tier, seed, out, cov):
    """appends violations of `prop` (C01: soundness, C02: completeness, C04: RandomGen soundness) to `out`"""
    rng = random.Random(seed * 7919 + 17)
    cases = gen.large_cases(rng, 0 if tier == "quick" else 40)
    if tier == "quick":
        rng2 = random.Random(seed)
        cases = rng2.sample(cases, 14)
    replay = common.replay_cases()
    if replay:
        cases = [c for c in replay if c.get("id", "").startswith("lg-")]
        if not cases:
            return
    walks = 6 if tier == "quick" else 25
    npert = 4 if tier == "quick" else 8

    # ---- 1. simulation: accepted behaviours of the Design generator
    path = tlc.write_cases([export.tlc_case(c, enum=True) for c in cases], "sim")
    try:
        sr = tlc.run_with_norm("MCEnum.tla", "MCSim.cfg", path, env={"VERIF_PRUNE": "1"}, workers=1,
                               simulate="num=%d" % (len(cases) * walks * 3), depth=40, tags=("SIM",),
                               extra=("-seed", str(seed)), timeout=900)
    finally:
        os.unlink(path)
    sims = {}
    for rec in sr.records:
        lst = sims.setdefault(rec[1] - 1, [])
        if rec[2] not in lst and len(lst) < walks:
            lst.append(rec[2])

    # ---- 2. candidates
    cands = []          # per case: list of (kind, rows)
    for ci, c in enumerate(cases):
        L = []
        for s in sims.get(ci, []):
            L.append(("sim", s))
            L.extend(perturb(c, s, rng, npert))
        cands.append(L)

    # ---- 4. implementation
    def ops(ci):
        o = []
        if prop in ("C01", "C02"):
            o.append({"op": "still_sat", "rows_list": [r for _, r in cands[ci]], "timeout": 300})
        if prop == "C01":
            o += [{"op": "synth", "strategy": "IterateSATGen", "n": 2, "timeout": 120},
                  {"op": "synth", "strategy": "CMSGen", "n": 2, "timeout": 120}]
        if prop == "C04":
            o += [{"op": "synth", "strategy": "RandomGen", "n": 2, "timeout": 60}]
        if prop == "C17":
            o.append({"op": "mismatch_many", "rows_list": [r for _, r in cands[ci]], "timeout": 300})
        return o
    tasks = [(c, ops(ci)) for ci, c in enumerate(cases)]
    obs = impl.run_tasks(tasks, op_timeout=300)

    # ---- 3. verdicts (candidates first, then returned experiments)
    tcases, tmaps = [], []
    for ci, c in enumerate(cases):
        traces = [{"n": len(r), "s": r, "hidden": []} for _, r in cands[ci]]
        tmap = [("cand", k) for k in range(len(traces))]
        for oi, rec in enumerate(obs[ci]):
            if rec.get("op") == "synth" and rec.get("status") == "returned":
                for ei, e in enumerate(rec["exps"]):
                    traces.append(e)
                    tmap.append((oi, ei))
        tcases.append(export.tlc_case(c, traces=traces, enum=False))
        tmaps.append(tmap)
    path = tlc.write_cases(tcases, "ltrace")
    try:
        tr = tlc.run_with_norm("MCTrace.tla", "MCTrace.cfg", path, timeout=1500)
    finally:
        os.unlink(path)
    verd = [dict() for _ in cases]
    for rec in tr.records:
        if rec[0] == "V":
            verd[rec[1] - 1][rec[2] - 1] = rec[3]
    cov.stats["states"] = cov.stats.get("states", 0) + sr.distinct + tr.distinct
    cov.stats["transitions"] = cov.stats.get("transitions", 0) + sr.states + tr.states

    # ---- judge
    n_sim = n_pert_ok = n_pert_bad = n_synth = n_skipped = 0
    for ci, c in enumerate(cases):
        o = obs[ci]
        if not o or o[0].get("status") != "built":
            n_skipped += 1
            continue
        if len(verd[ci]) != len(tmaps[ci]):
            raise tlc.TLCError("large phase: missing verdicts for %s" % c["id"])
        for oi, rec in enumerate(o):
            if rec.get("op") == "still_sat":
                if rec.get("status") != "returned":
                    if rec.get("status") == "raised":
                        out.append(violation(prop, "raised", c, strategy="still_sat", exc=rec.get("exc"),
                                             site=rec.get("site"), msg=rec.get("msg")))
                    continue
                for k, res in enumerate(rec["results"]):
                    kind, rows = cands[ci][k]
                    v = verd[ci][k]
                    if kind == "sim" and v != "ok":
                        raise tlc.TLCError("specification self-check failed: MCEnum accepted a sequence that MCTrace "
                                           "rejects (%s) in %s: %s" % (v, c["id"], rows))
                    if res is None:
                        n_skipped += 1
                        continue
                    if res == "api-disagrees":
                        out.append(violation(prop, "api-disagrees", c, strategy="still_sat", candidate=rows))
                        continue
                    if kind == "sim":
                        n_sim += 1
                    elif v == "ok":
                        n_pert_ok += 1
                    else:
                        n_pert_bad += 1
                    if v == "ok" and not res and prop == "C02":
                        out.append(violation(prop, "formula-rejects-valid", c, strategy="still_sat", verdict=v,
                                             origin=kind, example=rows))
                    if v != "ok" and res and prop == "C01":
                        out.append(violation(prop, "formula-accepts-invalid", c, strategy="still_sat", verdict=v,
                                             origin=kind, example=rows))
            elif rec.get("op") == "mismatch_many":
                if rec.get("status") != "returned":
                    continue
                for k, res in enumerate(rec["results"]):
                    kind, rows = cands[ci][k]
                    v = verd[ci][k]
                    if v == "levels":
                        continue          # not a well-formed candidate ('' pattern): outside C17's quantifier
                    if kind == "sim" and v != "ok":
                        raise tlc.TLCError("specification self-check failed: MCEnum accepted a sequence that MCTrace "
                                           "rejects (%s) in %s: %s" % (v, c["id"], rows))
                    if res["status"] == "raised":
                        out.append(violation(prop, "raised", c, exc=res["exc"], site=res["site"], spec=v, candidate=rows,
                                             detail=res.get("msg")))
                        break
                    if kind == "sim":
                        n_sim += 1
                    elif v == "ok":
                        n_pert_ok += 1
                    else:
                        n_pert_bad += 1
                    accepted = (res["keys"] == [])
                    if accepted != (v == "ok"):
                        out.append(violation(prop, "verdict", c, spec=v, checker=res["keys"], candidate=rows, origin=kind,
                                             direction="checker accepts an invalid sequence" if accepted else "checker rejects a valid sequence"))
                        break
            elif rec.get("op") == "synth" and rec.get("status") == "returned":
                bad = {}
                for ei, e in enumerate(rec["exps"]):
                    n_synth += 1
                    v = verd[ci][tmaps[ci].index((oi, ei))]
                    if v != "ok":
                        bad.setdefault(v, []).append(e["s"])
                for v, ex in bad.items():
                    out.append(violation(prop, "invalid", c, strategy=rec["strategy"], verdict=v, n=rec["n"],
                                         count=len(ex), example=ex[0]))
        cov.evaluations += 1
        cov.nontrivial.add("large:" + c["id"])
    cov.stats["traces"] = cov.stats.get("traces", 0) + n_sim + n_pert_ok + n_pert_bad + n_synth
    cov.notes["large_designs"] = {"cases": len(cases), "simulated_valid_pinned": n_sim,
                                  "perturbed_still_valid": n_pert_ok, "perturbed_invalid": n_pert_bad,
                                  "sampled_sequences_validated": n_synth, "not_expressible_as_pins": n_skipped,
                                  "max_T": max((len(s[0]) for s in sims.values() if s), default=0)}
