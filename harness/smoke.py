"""5-second smoke run: one design through MCNorm + MCTrace + MCEnum."""
import sys
import gen, pipeline
c = gen.systematic_flat()[1]
res = pipeline.run_design([c], lambda c: [{"op": "synth", "strategy": "IterateSATGen", "n": 100, "exhaust": True}])
r = res[0]
assert r.nb[0] and all(v == "ok" for v in r.verdicts[1]) and not r.missing[1], (r.nb, r.verdicts, r.missing)
print("smoke ok: %d sequences validated and enumerated" % r.obs[1]["count"])
