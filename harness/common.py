"""Violations, known findings, evidence files, exit protocol (DESIGN.md section 5)."""
import json
import os
import sys
import time

ROOT = os.path.dirname(os.path.dirname(os.path.abspath(__file__)))
WORK = os.path.join(ROOT, ".work")
REPLAYS = os.path.join(os.environ.get("VERIF_EVIDENCE_DIR") or WORK, "replays")
FINDINGS_FILE = os.path.join(ROOT, "known_findings.json")


def seed_from_env(default=20260922):
    try:
        return int(os.environ.get("VERIF_SEED", default))
    except ValueError:
        return default


# ---------------------------------------------------------------------------------------------
# structural triggers used by known-finding signatures (descriptions of the INPUT, not of validity)

def _factors(case):
    return case["factors"]


def _all_blocks(b):
    yield b
    for k in ("blocks",):
        for x in b.get(k, []):
            yield from _all_blocks(x)
    for k in ("block", "outer", "inner"):
        if k in b:
            yield from _all_blocks(b[k])


def _crossings(b):
    if b["op"] == "Cross":
        return [b["crossing"]]
    if b["op"] == "Multi":
        return list(b["crossings"])
    out = []
    for x in _all_blocks(b):
        if x is not b and x["op"] in ("Cross", "Multi"):
            out += _crossings(x)
    return out


def _all_cons(b):
    out = []
    for x in _all_blocks(b):
        out += x.get("cons", [])
    return out


def trig_crossed_within_of_derived(case):
    """a crossing contains a within-trial derived factor one of whose dependencies is a derived factor
    that is not in that crossing (or a weighted non-derived factor outside every crossing, see below)"""
    F = _factors(case)
    crossed = set(i for X in _crossings(case["block"]) for i in X)
    for X in _crossings(case["block"]):
        for i in X:
            f = F[i - 1]
            if f["kind"] == "d" and f["width"] == 1:
                for g in f["deps"]:
                    if F[g - 1]["kind"] == "d" and g not in X:
                        return True
                    # a weighted non-derived factor outside every crossing is rewritten into a derived factor
                    if F[g - 1]["kind"] == "b" and any(w > 1 for w in F[g - 1]["w"]) and g not in crossed:
                        return True
    return False


def trig_exclude_derived_with_derived_dep(case):
    """an Exclude of a level of a within-trial derived factor one of whose dependencies is itself derived - or is a
    weighted non-derived factor outside every crossing, which the library rewrites into a derived factor"""
    F = _factors(case)
    crossed = set(i for X in _crossings(case["block"]) for i in X)
    for k in _all_cons(case["block"]):
        if k["c"] != "Exclude":
            continue
        f = F[k["f"] - 1]
        if f["kind"] != "d":
            continue
        for g in f["deps"]:
            d = F[g - 1]
            if d["kind"] == "d":
                return True
            if d["kind"] == "b" and any(w > 1 for w in d["w"]) and g not in crossed:
                return True
    return False


def _has_con(case, kind):
    return any(k["c"] == kind for k in _all_cons(case["block"]))


def trig_has_exactly_k_in_a_row(case):
    return _has_con(case, "ExactlyKInARow")


def trig_has_sequential(case):
    return _has_con(case, "Sequential")


def trig_has_latin_square(case):
    return _has_con(case, "LatinSquare")


def trig_run_length_on_strided_factor(case):
    F = _factors(case)
    return any(k["c"] in ("AtMostKInARow", "AtLeastKInARow", "ExactlyKInARow") and F[k["f"] - 1]["kind"] == "d"
               and F[k["f"] - 1]["stride"] > 1 for k in _all_cons(case["block"]))


def trig_weighted_uncrossed_basic(case):
    """a non-derived factor with a weighted level that is in no crossing (the library rewrites it into a hidden pair of factors)"""
    F = _factors(case)
    crossed = set(i for X in _crossings(case["block"]) for i in X)
    import ir_ids
    return any(F[i - 1]["kind"] == "b" and any(w > 1 for w in F[i - 1]["w"]) and i not in crossed
               for i in ir_ids.design_ids(case["block"]))


def trig_weighted_uncrossed_with_dependent(case):
    """a weighted non-derived factor outside every crossing on which some derived factor of the design depends"""
    F = _factors(case)
    crossed = set(i for X in _crossings(case["block"]) for i in X)
    import ir_ids
    ids = ir_ids.design_ids(case["block"])
    wu = [i for i in ids if F[i - 1]["kind"] == "b" and any(w > 1 for w in F[i - 1]["w"]) and i not in crossed]
    return any(F[j - 1]["kind"] == "d" and any(g in wu for g in F[j - 1]["deps"]) for j in ids)


def trig_partially_crossed_weighted(case):
    """a weighted non-derived factor that is in some but not all crossings of a block without Nest"""
    xs = _crossings(case["block"])
    if len(xs) < 2 or any(b["op"] == "Nest" for b in _all_blocks(case["block"])):
        return False
    for i, f in enumerate(_factors(case)):
        if f["kind"] == "b" and any(w > 1 for w in f["w"]):
            n = sum(1 for X in xs if (i + 1) in X)
            if 0 < n < len(xs):
                return True
    return False


def trig_crossed_derived_with_free_source(case):
    """a crossing contains a within-trial derived factor one of whose dependencies is not in that crossing (so a crossing
    combination can be completed in several ways), and the block has MinimumTrials / Repeat (a trailing partial run)"""
    F = _factors(case)
    if not (_has_con(case, "MinimumTrials") or any(b["op"] in ("Repeat", "Merge") for b in _all_blocks(case["block"]))):
        return False
    for X in _crossings(case["block"]):
        for i in X:
            f = F[i - 1]
            if f["kind"] == "d" and f["width"] == 1 and any(g not in X for g in f["deps"]):
                return True
    return False


def trig_has_minimum_trials(case):
    return _has_con(case, "MinimumTrials")


def trig_repeat_or_merge(case):
    return any(b["op"] in ("Repeat", "Merge") for b in _all_blocks(case["block"]))


def trig_uncrossed_transition(case):
    F = _factors(case)
    crossed = set(i for X in _crossings(case["block"]) for i in X)
    import ir_ids
    return any(F[i - 1]["kind"] == "d" and F[i - 1]["width"] == 2 and i not in crossed for i in ir_ids.design_ids(case["block"]))


def trig_derived_of_complex(case):
    F = _factors(case)
    for f in F:
        if f["kind"] == "d" and any(F[g - 1]["kind"] == "d" and (F[g - 1]["width"] > 1 or F[g - 1]["start"] > 0) for g in f["deps"]):
            return True
    return False


def trig_derived_of_simple_derived(case):
    """a factor derived from a within-trial derived factor (width 1, start 0)"""
    F = _factors(case)
    for f in F:
        if f["kind"] == "d" and any(F[g - 1]["kind"] == "d" and F[g - 1]["width"] == 1 and F[g - 1]["start"] == 0
                                    for g in f["deps"]):
            return True
    return False


def trig_any(case):
    return True


TRIGGERS = {
    "crossed_derived_with_free_source": trig_crossed_derived_with_free_source,
    "partially_crossed_weighted": trig_partially_crossed_weighted,
    "weighted_uncrossed_with_dependent": trig_weighted_uncrossed_with_dependent,
    "derived_of_simple_derived": trig_derived_of_simple_derived,
    "crossed_within_of_derived": trig_crossed_within_of_derived,
    "exclude_derived_with_derived_dep": trig_exclude_derived_with_derived_dep,
    "has_exactly_k_in_a_row": trig_has_exactly_k_in_a_row,
    "has_sequential": trig_has_sequential,
    "has_latin_square": trig_has_latin_square,
    "repeat_or_merge": trig_repeat_or_merge,
    "has_minimum_trials": trig_has_minimum_trials,
    "weighted_uncrossed_basic": trig_weighted_uncrossed_basic,
    "run_length_on_strided_factor": trig_run_length_on_strided_factor,
    "uncrossed_transition": trig_uncrossed_transition,
    "derived_of_complex": trig_derived_of_complex,
    "any": trig_any,
}


# ---------------------------------------------------------------------------------------------

def load_findings():
    if not os.path.exists(FINDINGS_FILE):
        return []
    with open(FINDINGS_FILE) as f:
        return json.load(f)["findings"]


def replay_cases():
    """the single case of a replay file (./check Cxx --replay path), or None"""
    p = os.environ.get("VERIF_REPLAY")
    if not p:
        return None
    with open(p) as f:
        v = json.load(f)
    c = dict(v["case"])
    c.setdefault("tags", ["replay"])
    c.setdefault("tier", "B")
    c.setdefault("id", "replay")
    return [c]


def witness_cases(prop):
    if os.environ.get("VERIF_REPLAY"):
        return []
    """design cases attached to the known findings of a property (re-run on every invocation)"""
    out = []
    for fd in load_findings():
        if fd.get("status") == "known" and prop in fd["properties"] and "factors" in fd.get("witness", {}):
            w = dict(fd["witness"])
            w.setdefault("id", "witness-" + fd["id"])
            w.setdefault("tags", ["witness"])
            w.setdefault("tier", "B")
            out.append(w)
    return out


def match_finding(v, findings):
    """v: violation dict.  Returns the finding entry it matches (status known) or None."""
    for fd in findings:
        if fd.get("status") != "known":
            continue            # "fixed" entries suppress nothing
        if v["property"] not in fd["properties"]:
            continue
        m = fd["match"]
        ok = True
        for key in ("kind", "strategy", "exc", "site", "verdict", "op"):
            if key in m and v.get(key) != m[key]:
                ok = False
                break
        if not ok:
            continue
        if "case_id" in m and v.get("case", {}).get("id") != m["case_id"]:
            continue
        trig = m.get("trigger")
        if trig and not TRIGGERS[trig](v["case"]):
            continue
        return fd
    return None


def violation(prop, kind, case, **kw):
    v = {"property": prop, "kind": kind, "case": case}
    v.update(kw)
    return v


def write_replay(prop, idx, v):
    os.makedirs(REPLAYS, exist_ok=True)
    path = os.path.join(REPLAYS, "%s-%03d.json" % (prop, idx))
    with open(path, "w") as f:
        json.dump(v, f, indent=1, default=str)
    return path


def finish(prop, tier, seed, level, violations, coverage, t0, assumptions=(), machinery_error=None):
    """Print the protocol lines, write the evidence file, return the exit code."""
    findings = load_findings()
    new, known = [], {}
    for v in violations:
        fd = match_finding(v, findings)
        if fd is None:
            new.append(v)
        else:
            known.setdefault(fd["id"], [fd, 0])[1] += 1
    for fid, (fd, n) in sorted(known.items()):
        print("KNOWN-FINDING: property=%s %s [%s, %d occurrence(s) this run]" % (prop, fd["what"], fid, n))
    try:                                    # replay files of earlier runs of this property are stale
        for fn in os.listdir(REPLAYS):
            if fn.startswith(prop + "-"):
                os.unlink(os.path.join(REPLAYS, fn))
    except OSError:
        pass
    for i, v in enumerate(new[:50]):
        path = write_replay(prop, i, v)
        brief = {k: v[k] for k in v if k not in ("case", "property", "detail")}
        print("VIOLATION property=%s replay=%s %s case=%s" % (prop, path, json.dumps(brief, default=str)[:300],
                                                               v.get("case", {}).get("id")))
    cov = dict(coverage)
    cov["known_findings_hit"] = {k: n for k, (fd, n) in known.items()}
    ev = {"property_id": prop, "tier": tier, "seed": seed, "level": level, "coverage": cov,
          "assumptions": list(assumptions), "wall_s": round(time.time() - t0, 2), "violations": len(new)}
    evdir = os.environ.get("VERIF_EVIDENCE_DIR") or os.path.join(ROOT, "evidence")   # (override: runs against seeded changes)
    os.makedirs(evdir, exist_ok=True)
    with open(os.path.join(evdir, prop + ".json"), "w") as f:
        json.dump(ev, f, indent=1, default=str)
    if machinery_error:
        print("MACHINERY-ERROR property=%s %s" % (prop, machinery_error))
        return 2
    if new:
        return 1
    print("OK property=%s tier=%s seed=%d %s wall=%.1fs" % (
        prop, tier, seed, " ".join("%s=%s" % (k, cov[k]) for k in ("evaluations", "distinct_nontrivial", "states", "traces_validated_against_impl") if k in cov),
        time.time() - t0))
    return 0


def brief_case(case):
    return {"id": case.get("id"), "tags": case.get("tags"), "factors": case["factors"], "block": case["block"]}
