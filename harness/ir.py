"""Design IR -> real sweetpea objects, and observation encoders.

The IR is plain JSON data (see DESIGN.md section 3).  This module contains NO
semantics of SweetPea: it only constructs the library's own objects from the
description and turns what the library returns into level indices.  Derived
levels are truth tables (`acc`), so the same table is the Python predicate and
the TLA+ constant.

Factor ids are 1-based positions in case["factors"] (topologically ordered).
Level indices are 1-based; 0 means "no level" (None input / '' output).
"""
import contextlib
import io
import os
import sys

REPO = os.environ.get("VERIF_REPO", "/repo")
if REPO not in sys.path:
    sys.path.insert(0, REPO)

import sweetpea as sp  # noqa: E402
from sweetpea._internal.primitive import HiddenName  # noqa: E402


class EmptyStringInput(Exception):
    """A derivation predicate was handed '' where the documentation promises None."""


class Built:
    def __init__(self):
        self.factors = []      # sweetpea Factor per IR factor (index id-1)
        self.block = None
        self.blocks = []       # every block object constructed, in construction order
        self.cons_objs = {}    # shared constraint objects by IR "share" key
        self.pred_log = []     # optional log of predicate inputs


def _enc_arg(fdesc, v):
    if v is None:
        return 0
    if v == "":
        raise EmptyStringInput(fdesc["name"])
    return fdesc["levels"].index(v) + 1


def build_factor(case, idx, objs):
    F = case["factors"]
    f = F[idx]
    if f["kind"] == "b":
        return sp.Factor(f["name"], [sp.Level(n, w) for n, w in zip(f["levels"], f["w"])])
    deps = [objs[g - 1] for g in f["deps"]]
    depdescs = [F[g - 1] for g in f["deps"]]
    width = f["width"]
    dkind = f.get("dkind", "window")
    els = f.get("else", 0)

    def mk_pred(l):
        acc = set(tuple(a) for a in f["acc"][l])
        if dkind == "within" or width == 1:     # width-1 windows receive plain level names, like WithinTrial
            def pred(*args, _acc=acc):
                t = tuple(_enc_arg(d, a) for d, a in zip(depdescs, args))
                return t in _acc
        else:
            def pred(*args, _acc=acc):
                t = []
                for d, a in zip(depdescs, args):
                    for off in range(width):
                        t.append(_enc_arg(d, a[off - width + 1]))
                return tuple(t) in _acc
        return pred

    levels = []
    for l in range(len(f["levels"])):
        name, w = f["levels"][l], f["w"][l]
        if els == l + 1:
            levels.append(sp.ElseLevel(name, w))
            continue
        pred = mk_pred(l)
        if dkind == "within":
            win = sp.WithinTrial(pred, deps)
        elif dkind == "transition":
            win = sp.Transition(pred, deps)
        else:
            win = sp.Window(pred, deps, width, f["stride"], f.get("start_arg", f["start"]))
        levels.append(sp.DerivedLevel(name, win, w))
    return sp.Factor(f["name"], levels)


def build_factors(case):
    objs = []
    for i in range(len(case["factors"])):
        objs.append(build_factor(case, i, objs))
    return objs


def _level_ref(case, objs, k):
    fo = objs[k["f"] - 1]
    if k.get("l", 0) == 0:
        return fo
    return (fo, case["factors"][k["f"] - 1]["levels"][k["l"] - 1])


def build_constraint(case, objs, k, built=None):
    share = k.get("share")
    if share is not None and built is not None and share in built.cons_objs:
        return built.cons_objs[share]
    c = k["c"]
    if c == "MinimumTrials":
        o = sp.MinimumTrials(k["k"])
    elif c == "Exclude":
        o = sp.Exclude(_level_ref(case, objs, k))
    elif c == "Pin":
        o = sp.Pin(k["i"], _level_ref(case, objs, k))
    elif c == "Sequential":
        o = sp.Sequential(objs[k["f"] - 1])
    elif c == "LatinSquare":
        o = sp.LatinSquare([objs[g - 1] for g in k["fs"]])
    elif c in ("AtMostKInARow", "AtLeastKInARow", "ExactlyKInARow", "ExactlyK"):
        o = getattr(sp, c)(k["k"], _level_ref(case, objs, k))
    else:
        raise ValueError("unknown constraint " + c)
    if share is not None and built is not None:
        built.cons_objs[share] = o
    return o


MODES = {"weight": sp.RepeatMode.WEIGHT, "repeat": sp.RepeatMode.REPEAT, "equal": sp.RepeatMode.EQUAL}
ALIGNS = {"post": sp.AlignmentMode.POST_PREAMBLE, "parallel": sp.AlignmentMode.PARALLEL_START,
          "equal": sp.AlignmentMode.EQUAL_PREAMBLE}


NAN = -999      # token for float('nan') in recorded inputs / values


def _enc_num(x):
    if isinstance(x, float) and x != x:
        return NAN
    import math
    return int(math.floor(x)) if isinstance(x, (int, float)) else x


def build_continuous(case, objs, built):
    """ContinuousFactor objects for case["continuous"]; custom distributions log their inputs in built.cont_log"""
    built.cont = {}
    built.cont_log = []
    F = case["factors"]
    for ci, cd in enumerate(case.get("continuous", [])):
        deps = []
        for d in cd.get("deps", []):
            if d["k"] == "d":
                deps.append(objs[d["f"] - 1])
            elif d["k"] == "c":
                deps.append(built.cont[d["name"]])
            else:
                deps.append(sp.ContinuousFactorWindow([built.cont[n] for n in d["names"]], d["width"], d.get("stride", 1), d.get("start")))
        if cd["dist"] == "uniform":
            dist = sp.UniformDistribution(*cd.get("args", [0, 1]))
        elif cd["dist"] == "gaussian":
            dist = sp.GaussianDistribution(*cd.get("args", [0, 1]))
        elif cd["dist"] == "exponential":
            dist = sp.ExponentialDistribution(*cd.get("args", [1]))
        elif cd["dist"] == "lognormal":
            dist = sp.LogNormalDistribution(*cd.get("args", [0, 1]))
        else:
            stream = cd["stream"]
            state = {"k": 0}

            def fn(*inputs, _cd=cd, _ci=ci, _state=state, _stream=stream):
                enc = []
                for d, x in zip(_cd.get("deps", []), inputs):
                    if d["k"] == "d":
                        enc.append([_enc_arg(F[d["f"] - 1], x)])
                    elif d["k"] == "c":
                        enc.append([_enc_num(x)])
                    else:
                        xs = x if isinstance(x, list) else [x]
                        enc.append([[_enc_num(w[-j]) for j in range(d["width"] - 1, -1, -1)] for w in xs])
                v = _stream[_state["k"] % len(_stream)]
                _state["k"] += 1
                built.cont_log.append({"f": _ci + 1, "inputs": enc, "v": v})
                return v
            if deps:
                dist = sp.CustomDistribution(fn, deps, cumulative=cd.get("cumulative", False))
            else:
                dist = sp.CustomDistribution(fn, cumulative=cd.get("cumulative", False))
        built.cont[cd["name"]] = sp.ContinuousFactor(cd["name"], distribution=dist)
    return built.cont


def _cont_pred(p):
    op, k = p["op"], p.get("k", 0)
    if op == "lt":
        return (lambda a: a < k)
    if op == "ne":
        return (lambda a: a != k)
    if op == "lt2":
        return (lambda a, b: a < b)
    if op == "sumle":
        return (lambda a, b: a + b <= k)
    raise ValueError(op)


def build_block(case, objs, b, built=None):
    # C18: "share_block": key - ONE python block object for every occurrence of the key in a session (a user who keeps a
    # block in a variable and passes it to several combinators)
    if built is not None and b.get("share_block"):
        key = b["share_block"]
        if key not in built.shared_blocks:
            built.shared_blocks[key] = _build_block(case, objs, b, built)
        return built.shared_blocks[key]
    return _build_block(case, objs, b, built)


def _build_block(case, objs, b, built=None):
    op = b["op"]
    cons = [build_constraint(case, objs, k, built) for k in b.get("cons", []) if k["c"] != "Continuous"]
    if built is not None and b.get("cont"):
        for k in b.get("cons", []):
            if k["c"] == "Continuous":
                from sweetpea._internal.constraint import ContinuousConstraint    # documented as sweetpea.ContinuousConstraint but not exported
                cons.append(ContinuousConstraint([built.cont[n] for n in k["names"]], _cont_pred(k["pred"])))
    extra = [built.cont[n] for n in b.get("cont", [])] if built is not None and b.get("cont") else []
    # C18: "cons_list": key - the python LIST handed to the constructor is one object for every block of the session that
    # names the key (a user reusing her list); "cons_default" - the argument is omitted (the constructors' default list)
    if built is not None and b.get("cons_list"):
        cons = built.cons_lists.setdefault(b["cons_list"], cons)
    if b.get("cons_default") and not b.get("cons") and op in ("Merge", "Multi"):
        if op == "Merge":
            subs = [build_block(case, objs, x, built) for x in b["blocks"]]
            al = b.get("align")
            blk = sp.Merge(subs, mode=MODES[b.get("mode", "repeat")], alignment=(ALIGNS[al] if al else None))
        else:
            blk = sp.MultiCrossBlock([objs[i - 1] for i in b["design"]], [[objs[i - 1] for i in x] for x in b["crossings"]],
                                     require_complete_crossing=b.get("rcc", True), mode=MODES[b.get("mode", "equal")],
                                     alignment=ALIGNS[b.get("align", "equal")])
        if built is not None:
            built.blocks.append(blk)
        return blk
    if op == "Cross":
        blk = sp.CrossBlock([objs[i - 1] for i in b["design"]] + extra, [objs[i - 1] for i in b["crossing"]],
                            cons, b.get("rcc", True))
    elif op == "Multi":
        blk = sp.MultiCrossBlock([objs[i - 1] for i in b["design"]],
                                 [[objs[i - 1] for i in x] for x in b["crossings"]],
                                 cons, b.get("rcc", True),
                                 mode=MODES[b.get("mode", "equal")],
                                 alignment=ALIGNS[b.get("align", "equal")])
    elif op == "Merge":
        subs = [build_block(case, objs, x, built) for x in b["blocks"]]
        al = b.get("align")
        blk = sp.Merge(subs, cons, mode=MODES[b.get("mode", "repeat")],
                       alignment=(ALIGNS[al] if al else None))
    elif op == "Repeat":
        sub = build_block(case, objs, b["block"], built)
        blk = sp.Repeat(sub, cons)
    elif op == "Nest":
        o = build_block(case, objs, b["outer"], built)
        i = build_block(case, objs, b["inner"], built)
        blk = sp.Nest(o, i, cons)
    else:
        raise ValueError("unknown block op " + op)
    if built is not None:
        built.blocks.append(blk)
    return blk


def build(case):
    built = Built()
    built.cons_lists = {}
    built.shared_blocks = {}
    built.factors = build_factors(case)
    build_continuous(case, built.factors, built)
    # C18: blocks built earlier in the same session, sharing factor objects and (through "share" keys) constraint objects
    built.prelude_errors = []
    for pb in case.get("prelude", []):
        try:
            build_block(case, built.factors, pb, built)
        except Exception as e:           # the earlier block itself is not the subject
            built.prelude_errors.append(type(e).__name__)
    built.block = build_block(case, built.factors, case["block"], built)
    return built


@contextlib.contextmanager
def quiet():
    buf = io.StringIO()
    with contextlib.redirect_stdout(buf):
        yield buf


def visible_ids(case, block_design_ids=None):
    """ids of the IR factors that are in the block's design (all IR factors by default)."""
    if block_design_ids is not None:
        return list(block_design_ids)
    return design_ids(case["block"])


def design_ids(b):
    op = b["op"]
    if op in ("Cross", "Multi"):
        return list(b["design"])
    if op == "Merge":
        out = []
        for x in b["blocks"]:
            for i in design_ids(x):
                if i not in out:
                    out.append(i)
        return out
    if op == "Repeat":
        return design_ids(b["block"])
    if op == "Nest":
        out = design_ids(b["outer"])
        for i in design_ids(b["inner"]):
            if i not in out:
                out.append(i)
        return out
    raise ValueError(op)


def encode_experiment(case, exp, ids=None):
    """dict name -> list of level names  ==>  {"n": length or -1, "s": [[level index per IR factor]...], "keys": ok?}

    Row t has one entry per IR factor (0 for '' / factors outside the design are 0).
    -1 = a value that is not a level name of that factor; -2 = column missing;
    lengths that differ between columns make "n" = -1."""
    F = case["factors"]
    ids = ids or design_ids(case["block"])
    lens = set()
    cols = {}
    for i in ids:
        f = F[i - 1]
        col = exp.get(f["name"])
        if col is None:
            cols[i] = None
            continue
        lens.add(len(col))
        cols[i] = col
    n = lens.pop() if len(lens) == 1 else (-1 if lens else 0)
    rows = []
    if n >= 0:
        for t in range(n):
            row = []
            for i in range(1, len(F) + 1):
                if i not in cols:
                    row.append(0)
                    continue
                col = cols[i]
                if col is None:
                    row.append(-2)
                    continue
                v = col[t]
                f = F[i - 1]
                if v == "" or v is None:
                    row.append(0)
                elif v in f["levels"]:
                    row.append(f["levels"].index(v) + 1)
                else:
                    row.append(-1)
            rows.append(row)
    cont_names = [cd["name"] for cd in case.get("continuous", [])]
    extra = [k for k in exp.keys() if not any(F[i - 1]["name"] == k for i in ids) and k not in cont_names]
    hidden = [repr(k) for k in exp.keys() if isinstance(k, HiddenName)]
    return {"n": n, "s": rows, "extra": [str(k) for k in extra], "hidden": hidden}


def decode_sequence(case, rows, ids=None):
    """inverse of encode_experiment for candidates produced by TLC: rows -> dict of names."""
    F = case["factors"]
    ids = ids or design_ids(case["block"])
    out = {}
    for i in ids:
        f = F[i - 1]
        out[f["name"]] = [("" if r[i - 1] == 0 else f["levels"][r[i - 1] - 1]) for r in rows]
    return out
