"""C17 (mismatch checker), C14, C15, C20, C21, ... : checks that reuse the Design specification as oracle."""
import json
import os
import random
import time

import common
import export
import gen
import gen_blocks
import impl
import pipeline
import tlc
from checks_design import Coverage, SAT, RND, batches, canon, select_cases
from common import violation


def perturbations(case, rows, rng, limit=12):
    """well-formed candidates near a sequence: one cell changed to another level of the same factor, two adjacent
    trials swapped, one trial dropped / duplicated.  (Candidate generation only - TLC labels them.)"""
    F = case["factors"]
    T = len(rows)
    out = []
    cells = [(t, i) for t in range(T) for i in range(len(F)) if rows[t][i] > 0 and len(F[i]["levels"]) > 1]
    rng.shuffle(cells)
    for (t, i) in cells[:limit]:
        nl = len(F[i]["levels"])
        new = [list(r) for r in rows]
        new[t][i] = rng.choice([l for l in range(1, nl + 1) if l != rows[t][i]])
        out.append(new)
    for t in rng.sample(range(T - 1), min(3, max(T - 1, 0))) if T > 1 else []:
        new = [list(r) for r in rows]
        new[t], new[t + 1] = new[t + 1], new[t]
        if new != rows:
            out.append(new)
    if T > 1:
        out.append([list(r) for r in rows[:-1]])
    out.append([list(r) for r in rows] + [list(rows[-1])])
    # keep only well-formed candidates: '' exactly where the original had '' (the property quantifies over those)
    def same_pattern(new):
        return all((new[t][i] == 0) == (rows[min(t, T - 1)][i] == 0) for t in range(len(new)) for i in range(len(F)))
    return [n for n in out if same_pattern(n)]


def c17(tier, seed):
    t0 = time.time()
    rng = random.Random(seed)
    cov, out, err = Coverage(), [], None
    try:
        cases = select_cases(tier, seed, ("flat", "blocks"), 20, 300)
        cases += common.witness_cases("C17")
        for batch in batches(cases, 250):
            # phase 1: some valid sequences from the implementation
            obs = impl.run_tasks([(c, [{"op": "synth", "strategy": SAT, "n": 6}]) for c in batch], op_timeout=90)
            tasks, cands = [], []
            for c, o in zip(batch, obs):
                if not o or o[0].get("status") != "built" or len(o) < 2 or o[1].get("status") != "returned":
                    continue
                seqs = [e["s"] for e in o[1]["exps"] if e["n"] > 0]
                cl = []
                for s in seqs[:4]:
                    cl.append(s)
                    cl += perturbations(c, s, rng, 10 if tier == "quick" else 25)
                if not cl:
                    continue
                tasks.append((c, [{"op": "mismatch_many", "rows_list": cl, "timeout": 120}]))
                cands.append(cl)
            if not tasks:
                continue
            obs2 = impl.run_tasks(tasks, op_timeout=120)
            # TLC labels every candidate
            tcases = [export.tlc_case(c, traces=[{"n": len(r), "s": r, "hidden": []} for r in cl], enum=False)
                      for (c, _), cl in zip(tasks, cands)]
            path = tlc.write_cases(tcases, "mm")
            tr = tlc.run_with_norm("MCTrace.tla", "MCTrace.cfg", path, timeout=1500)
            os.unlink(path)
            cov.stats["states"] = cov.stats.get("states", 0) + tr.distinct
            cov.stats["transitions"] = cov.stats.get("transitions", 0) + tr.states
            verd = {}
            for rec in tr.records:
                if rec[0] == "V":
                    verd[(rec[1], rec[2])] = rec[3]
            for ci, ((c, _), cl, o) in enumerate(zip(tasks, cands, obs2)):
                if len(o) < 2 or o[1].get("status") != "returned":
                    cov.evaluations += 1
                    continue
                nvalid = ninvalid = 0
                for ki, (rows, res) in enumerate(zip(cl, o[1]["results"])):
                    v = verd.get((ci + 1, ki + 1))
                    if v is None:
                        raise tlc.TLCError("no verdict for candidate")
                    cov.stats["traces"] = cov.stats.get("traces", 0) + 1
                    if v == "ok":
                        nvalid += 1
                    else:
                        ninvalid += 1
                    if res["status"] == "raised":
                        out.append(violation("C17", "raised", c, exc=res["exc"], site=res["site"], spec=v, candidate=rows,
                                             detail=res.get("msg")))
                        break
                    accepted = (res["keys"] == [])
                    if accepted != (v == "ok"):
                        out.append(violation("C17", "verdict", c, spec=v, checker=res["keys"], candidate=rows,
                                             direction="checker accepts an invalid sequence" if accepted else "checker rejects a valid sequence"))
                        break
                cov.evaluations += 1
                if nvalid and ninvalid:
                    cov.nontrivial.add(canon(c))
                    cov.sample({"case": common.brief_case(c), "candidates": len(cl), "valid": nvalid, "invalid": ninvalid,
                                "one_invalid": next((r for ki, r in enumerate(cl) if verd[(ci + 1, ki + 1)] != "ok"), None)})
    except tlc.TLCError as e:
        err = str(e)[:2000]
    return common.finish("C17", tier, seed, "model_checking", out, cov.as_dict(
        "for each design, up to 4 sequences returned by IterateSATGen and their well-formed perturbations (one cell changed to "
        "another level, adjacent trials swapped, last trial dropped/duplicated) are labelled by TLC (MCTrace verdict) and by "
        "sample_mismatch_experiment; the two labels must coincide; non-trivial = the case had both valid and invalid candidates"),
        t0, machinery_error=err)


CHECKS = {"C17": c17}
