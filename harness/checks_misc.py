"""C17 (mismatch checker), C14, C15, C20, C21, ... : checks that reuse the Design specification as oracle."""
import json
import os
import random
import time

import common
import export
import gen
import gen_blocks
import impl
import pipeline
import tlc
from checks_design import Coverage, SAT, RND, batches, canon, select_cases
from common import violation


def perturbations(case, rows, rng, limit=12):
    """well-formed candidates near a sequence: one cell changed to another level of the same factor, two adjacent
    trials swapped, one trial dropped / duplicated.  (Candidate generation only - TLC labels them.)"""
    F = case["factors"]
    T = len(rows)
    out = []
    cells = [(t, i) for t in range(T) for i in range(len(F)) if rows[t][i] > 0 and len(F[i]["levels"]) > 1]
    rng.shuffle(cells)
    for (t, i) in cells[:limit]:
        nl = len(F[i]["levels"])
        new = [list(r) for r in rows]
        new[t][i] = rng.choice([l for l in range(1, nl + 1) if l != rows[t][i]])
        out.append(new)
    for t in rng.sample(range(T - 1), min(3, max(T - 1, 0))) if T > 1 else []:
        new = [list(r) for r in rows]
        new[t], new[t + 1] = new[t + 1], new[t]
        if new != rows:
            out.append(new)
    if T > 1:
        out.append([list(r) for r in rows[:-1]])
    out.append([list(r) for r in rows] + [list(rows[-1])])
    # keep only well-formed candidates: '' exactly where the original had '' (the property quantifies over those)
    def same_pattern(new):
        return all((new[t][i] == 0) == (rows[min(t, T - 1)][i] == 0) for t in range(len(new)) for i in range(len(F)))
    return [n for n in out if same_pattern(n)]


def c17(tier, seed):
    t0 = time.time()
    rng = random.Random(seed)
    cov, out, err = Coverage(), [], None
    try:
        cases = select_cases(tier, seed, ("flat", "blocks"), 20, 300)
        cases += common.witness_cases("C17")
        for batch in batches(cases, 250):
            # phase 1: some valid sequences from the implementation
            obs = impl.run_tasks([(c, [{"op": "synth", "strategy": SAT, "n": 6}]) for c in batch], op_timeout=90)
            tasks, cands = [], []
            for c, o in zip(batch, obs):
                if not o or o[0].get("status") != "built" or len(o) < 2 or o[1].get("status") != "returned":
                    continue
                seqs = [e["s"] for e in o[1]["exps"] if e["n"] > 0]
                cl = []
                for s in seqs[:4]:
                    cl.append(s)
                    cl += perturbations(c, s, rng, 10 if tier == "quick" else 25)
                if not cl:
                    continue
                tasks.append((c, [{"op": "mismatch_many", "rows_list": cl, "timeout": 120}]))
                cands.append(cl)
            if not tasks:
                continue
            obs2 = impl.run_tasks(tasks, op_timeout=120)
            # TLC labels every candidate
            tcases = [export.tlc_case(c, traces=[{"n": len(r), "s": r, "hidden": []} for r in cl], enum=False)
                      for (c, _), cl in zip(tasks, cands)]
            path = tlc.write_cases(tcases, "mm")
            tr = tlc.run_with_norm("MCTrace.tla", "MCTrace.cfg", path, timeout=1500)
            os.unlink(path)
            cov.stats["states"] = cov.stats.get("states", 0) + tr.distinct
            cov.stats["transitions"] = cov.stats.get("transitions", 0) + tr.states
            verd = {}
            for rec in tr.records:
                if rec[0] == "V":
                    verd[(rec[1], rec[2])] = rec[3]
            for ci, ((c, _), cl, o) in enumerate(zip(tasks, cands, obs2)):
                if len(o) < 2 or o[1].get("status") != "returned":
                    cov.evaluations += 1
                    continue
                nvalid = ninvalid = 0
                for ki, (rows, res) in enumerate(zip(cl, o[1]["results"])):
                    v = verd.get((ci + 1, ki + 1))
                    if v is None:
                        raise tlc.TLCError("no verdict for candidate")
                    cov.stats["traces"] = cov.stats.get("traces", 0) + 1
                    if v == "ok":
                        nvalid += 1
                    else:
                        ninvalid += 1
                    if res["status"] == "raised":
                        out.append(violation("C17", "raised", c, exc=res["exc"], site=res["site"], spec=v, candidate=rows,
                                             detail=res.get("msg")))
                        break
                    accepted = (res["keys"] == [])
                    if accepted != (v == "ok"):
                        out.append(violation("C17", "verdict", c, spec=v, checker=res["keys"], candidate=rows,
                                             direction="checker accepts an invalid sequence" if accepted else "checker rejects a valid sequence"))
                        break
                cov.evaluations += 1
                if nvalid and ninvalid:
                    cov.nontrivial.add(canon(c))
                    cov.sample({"case": common.brief_case(c), "candidates": len(cl), "valid": nvalid, "invalid": ninvalid,
                                "one_invalid": next((r for ki, r in enumerate(cl) if verd[(ci + 1, ki + 1)] != "ok"), None)})
        # the same comparison on designs of 9-24 trials: candidates = behaviours TLC simulated from the specification and
        # their perturbations (checks_large.py)
        import checks_large
        checks_large.run_large("C17", tier, seed, out, cov)
    except tlc.TLCError as e:
        err = str(e)[:2000]
    return common.finish("C17", tier, seed, "model_checking", out, cov.as_dict(
        "for each design, up to 4 sequences returned by IterateSATGen and their well-formed perturbations (one cell changed to "
        "another level, adjacent trials swapped, last trial dropped/duplicated) are labelled by TLC (MCTrace verdict) and by "
        "sample_mismatch_experiment; the two labels must coincide; non-trivial = the case had both valid and invalid candidates"),
        t0, machinery_error=err)


def c15(tier, seed):
    from checks_design import judge_build, judge_sound, judge_complete, judge_unsat, judge_raised, sample_of
    t0 = time.time()
    rng = random.Random(seed)
    cov, out, err = Coverage(), [], None
    try:
        cases = gen.derivation_cases(rng, 30 if tier == "quick" else 600)
        # geometry corners of the systematic skeleton that are about derivation windows
        geo = {"stride", "late-start", "mixed-readiness", "early-start-over-complex", "window-of-window", "window3-of-transition",
               "two-complex", "design-order"}
        cases += [c for c in gen.systematic_corner() + gen.systematic_flat()
                  if set(c.get("tags", [])) & geo and "run-length-on-stride" not in c.get("tags", [])]     # (KF10 is about constraints)
        cases += common.witness_cases("C15")
        cases = common.replay_cases() or cases

        def ops(c):
            return [{"op": "synth", "strategy": SAT, "n": pipeline.CAP, "exhaust": True},
                    {"op": "synth", "strategy": RND, "n": pipeline.CAP, "exhaust": True, "timeout": 30},
                    {"op": "synth", "strategy": "CMSGen", "n": 3}]
        kinds = {}
        for batch in batches(cases, 250):
            for r in pipeline.run_design(batch, ops, stats=cov.stats):
                # ambiguous derivation <=> the constructor refuses (Blocks!Ambiguous)
                if not judge_build("C15", r, out):
                    cov.add_case(r, r.obs[0].get("status") == "rejected" and not r.nb[0])
                    kinds["refused"] = kinds.get("refused", 0) + 1
                    continue
                nt = False
                for oi in range(1, len(r.obs)):
                    o = r.obs[oi]
                    judge_raised("C15", r, oi, out)
                    if o["status"] != "returned":
                        continue
                    judge_unsat("C15", r, oi, out)          # partial derivation => error reported, no sequences
                    judge_sound("C15", r, oi, out)          # clauses "levels" ('' exactly off start/stride) and "derived"
                    judge_complete("C15", r, oi, out)
                    nt = nt or o["count"] > 0
                if r.nb[2]:
                    kinds["partial"] = kinds.get("partial", 0) + 1
                    nt = True
                else:
                    kinds["total"] = kinds.get("total", 0) + 1
                cov.add_case(r, nt)
                if nt and not r.nb[2]:
                    cov.sample(sample_of(r, 1))
        cov.notes["case_kinds"] = kinds
    except tlc.TLCError as e:
        err = str(e)[:2000]
    return common.finish("C15", tier, seed, "model_checking", out, cov.as_dict(
        "every assignment of the 4 within-trial windows of two binary factors to {level 1, level 2, both, none} (thinned), "
        "ElseLevel tables, transitions and windows with start before/at/after the default (None inputs) and stride 2-3, plus "
        "seeded random tables: Blocks!Ambiguous must coincide with the constructor's refusal, Blocks!Partial with an empty "
        "result, and for total derivations the exhausted sets of both samplers are validated/enumerated against Design.tla "
        "(clauses levels/derived); non-trivial = refused, partial, or at least one sequence validated"), t0, machinery_error=err)


def c14(tier, seed):
    t0 = time.time()
    rng = random.Random(seed)
    cov, out, err = Coverage(), [], None
    try:
        cases = select_cases(tier, seed, ("flat", "blocks"), 30, 600) + gen.derivation_cases(rng, 10 if tier == "quick" else 100)
        cases += common.witness_cases("C14")
        for batch in batches(cases, 250):
            obs = impl.run_tasks([(c, [{"op": "varmap", "ncand": 5 if tier == "quick" else 20, "seed": seed}]) for c in batch], op_timeout=90)
            tcases, keep = [], []
            for c, o in zip(batch, obs):
                cov.evaluations += 1
                if len(o) < 2 or o[0].get("status") != "built":
                    continue
                d = o[1]
                if d.get("status") == "raised":
                    out.append(violation("C14", "raised", c, exc=d.get("exc"), site=d.get("site"), op="varmap", detail=d.get("msg")))
                    continue
                if d.get("status") != "returned" or "skipped" in d:
                    continue
                rec = export.tlc_case(c, enum=False)
                rec.update({k: d[k] for k in ("T", "vps", "table", "varfactors", "auxmin", "fvt_mismatch", "cands")})
                tcases.append(rec)
                keep.append((c, d))
            if not tcases:
                continue
            path = tlc.write_cases(tcases, "varmap")
            try:
                r = tlc.run_with_norm("VarMap.tla", "VarMap.cfg", path, tags=("VM",), timeout=1500)
            finally:
                os.unlink(path)
            cov.stats["states"] = cov.stats.get("states", 0) + r.distinct
            cov.stats["transitions"] = cov.stats.get("transitions", 0) + r.states
            cov.stats["traces"] = cov.stats.get("traces", 0) + sum(len(d["cands"]) for _, d in keep)
            for rec in r.records:
                c, d = keep[rec[1] - 1]
                out.append(violation("C14", "varmap", c, verdict=rec[3], candidate=(d["cands"][rec[2] - 1] if rec[2] > 0 else None)))
            for c, d in keep:
                if len(d["table"]) > 2:
                    cov.nontrivial.add(canon(c))
                    cov.sample({"case": common.brief_case(c), "vps": d["vps"], "table_head": d["table"][:6], "auxmin": d["auxmin"],
                                "candidate": d["cands"][0] if d["cands"] else None})
    except tlc.TLCError as e:
        err = str(e)[:2000]
    return common.finish("C14", tier, seed, "model_checking", out, cov.as_dict(
        "for every design of the generator space (designs rewritten by weight desugaring excluded) the table "
        "(trial, factor, level) -> variable is recorded from _encode_variable / factor_variables_for_trial and judged by "
        "VarMap.tla (bijection onto 1..variables_per_sample, defined exactly where Design!Applies says the factor applies, "
        "auxiliary variables of the compiled clauses above it); random one-hot assignments are encoded with the table, decoded "
        "by Gen.decode and compared with the chosen levels; non-trivial = table with more than 2 entries"), t0, machinery_error=err)


MAX_ATTEMPTS = 40


def cont_tlc_case(c, exp_rec, ei):
    """one returned sequence of a design with continuous factors -> the record Continuous.tla replays"""
    names = [cd["name"] for cd in c["continuous"]]
    idx = {n: k + 1 for k, n in enumerate(names)}
    cf = []
    for cd in c["continuous"]:
        deps = []
        for d in cd.get("deps", []):
            if d["k"] == "d":
                deps.append({"k": "d", "f": d["f"]})
            elif d["k"] == "c":
                deps.append({"k": "c", "idx": idx[d["name"]]})
            else:
                start = d.get("start")
                deps.append({"k": "w", "fs": [idx[n] for n in d["names"]], "width": d["width"], "stride": d.get("stride", 1),
                             "start": (d["width"] - 1) if start is None else start})
        cf.append({"name": cd["name"], "deps": deps, "cumulative": bool(cd.get("cumulative")), "custom": cd["dist"] == "custom"})
    cons = [{"fs": [idx[n] for n in k["names"]], "pred": {"op": k["pred"]["op"], "k": k["pred"].get("k", 0)}}
            for k in c["block"]["cons"] if k["c"] == "Continuous"]
    e = exp_rec["exps"][ei]
    T = e["n"]
    final = [exp_rec["cont"][ei].get(n, []) for n in names]
    calls = exp_rec["cont_log"]
    # A constraint that rarely holds makes the sampler resample thousands of times.  Attempts are memoryless (Resample
    # resets every column) and have a fixed number of recorded calls, so dropping whole attempts from the middle of the
    # log leaves a behaviour of the same specification: keep the first and the last MAX_ATTEMPTS/2 attempts.
    per_attempt = T * sum(1 for x in cf if x["custom"])
    dropped = 0
    if per_attempt > 0 and len(calls) > MAX_ATTEMPTS * per_attempt and len(calls) % per_attempt == 0:
        half = (MAX_ATTEMPTS // 2) * per_attempt
        dropped = (len(calls) - 2 * half) // per_attempt
        calls = calls[:half] + calls[-half:]
    return {"T": T, "cf": cf, "cons": cons, "disc": e["s"], "calls": calls, "final": final, "dropped_attempts": dropped}


def c22(tier, seed):
    from checks_design import judge_sound
    t0 = time.time()
    rng = random.Random(seed)
    cov, out, err = Coverage(), [], None
    try:
        cases = gen.continuous_cases(rng, 120 if tier == "quick" else 1500)

        def ops(c):
            return [{"op": "synth", "strategy": SAT, "n": 1, "timeout": 20}, {"op": "synth", "strategy": RND, "n": 1, "timeout": 20}]
        for batch in batches(cases, 300):
            res = pipeline.run_design(batch, ops, stats=cov.stats, do_enum=False, op_timeout=30)
            ccases, keep = [], []
            for r in res:
                cov.evaluations += 1
                if not r.built:
                    # the constructor refuses some dependency chains (a continuous factor that depends on a continuous factor
                    # with only discrete dependencies): not an accepted design, C22 says nothing about it
                    cov.notes["refused_by_constructor"] = cov.notes.get("refused_by_constructor", 0) + 1
                    continue
                for oi in range(1, len(r.obs)):
                    o = r.obs[oi]
                    if o["status"] == "raised":
                        out.append(violation("C22", "raised", r.case, strategy=o.get("strategy"), exc=o.get("exc"), site=o.get("site"),
                                             op="synth", detail=o.get("msg")))
                        continue
                    if o["status"] != "returned" or o["count"] != 1:
                        cov.notes["inconclusive"] = cov.notes.get("inconclusive", 0) + 1
                        continue
                    judge_sound("C22", r, oi, out)          # the discrete part stays valid
                    ccases.append(cont_tlc_case(r.case, o, 0))
                    keep.append((r.case, o))
            if not ccases:
                continue
            path = tlc.write_cases(ccases, "cont")
            try:
                tr = tlc.run("Continuous.tla", "Continuous.cfg", env={"VERIF_CASES": path}, tags=("CONT",), timeout=1500)
            finally:
                os.unlink(path)
            cov.stats["states"] = cov.stats.get("states", 0) + tr.distinct
            cov.stats["transitions"] = cov.stats.get("transitions", 0) + tr.states
            got = set()
            for rec in tr.records:
                got.add(rec[1])
                c, o = keep[rec[1] - 1]
                if rec[2] != "ok":
                    out.append(violation("C22", "continuous", c, strategy=o.get("strategy"), verdict=rec[2], call=rec[3],
                                         calls=ccases[rec[1] - 1]["calls"][max(0, rec[3] - 1):rec[3] + 2], final=ccases[rec[1] - 1]["final"]))
            if len(got) != len(ccases):
                raise tlc.TLCError("missing CONT verdicts")
            for (c, o), cc in zip(keep, ccases):
                if len(cc["calls"]) > cc["T"] or cc["cons"]:
                    cov.nontrivial.add(canon(c))
                    cov.sample({"case": {"block": c["block"], "continuous": c["continuous"]}, "calls": cc["calls"][:4], "final": cc["final"]})
    except tlc.TLCError as e:
        err = str(e)[:2000]
    return common.finish("C22", tier, seed, "model_checking", out, cov.as_dict(
        "seeded random designs with 1-3 continuous factors: recording CustomDistributions (dependencies on discrete factors, on "
        "other continuous factors, ContinuousFactorWindow with width 1-3, stride 1-2, start default/early/late, cumulative) "
        "and built-in distributions, with ContinuousConstraints; every call of a distribution is replayed by Continuous.tla (call "
        "order, inputs, resampling, returned columns, constraints on the returned values); the discrete part by MCTrace; "
        "non-trivial = more than T calls or at least one constraint"), t0, machinery_error=err)


CHECKS = {"C17": c17, "C15": c15, "C14": c14, "C22": c22}
