"""Drive the real sweetpea implementation on IR cases inside worker processes.

Every task is (case, ops); the worker builds the objects and executes the ops in
order on the *same* objects (so histories can be expressed), returning one
observation record per op.  Nothing here decides validity.
"""
import multiprocessing as mp
import os
import signal
import sys
import tempfile
import time
import traceback

HERE = os.path.dirname(os.path.abspath(__file__))
if HERE not in sys.path:
    sys.path.insert(0, HERE)


class OpTimeout(Exception):
    pass


def _alarm(signum, frame):
    raise OpTimeout()


def _strategy(name):
    import sweetpea as sp
    if name == "RandomGen0":
        return sp.RandomGen(0)
    return getattr(sp, name)


def _exc_site(tb):
    fr = traceback.extract_tb(tb)
    for f in reversed(fr):
        if "/sweetpea/" in f.filename:
            return "%s:%s" % (os.path.basename(f.filename), f.name)
    if fr:
        return "%s:%s" % (os.path.basename(fr[-1].filename), fr[-1].name)
    return "?"


def _design_state(built, case):
    """Projected abstract state of the block (for C19): names of design, continuous factors,
    crossings, number of constraints, trial count."""
    b = built.block
    return {
        "design": [str(getattr(f, "name", f)) if not _is_hidden(f) else "<hidden>" for f in b.design],
        "cont": [f.name for f in b.continuous_factors],
        "crossings": [[str(f.name) for f in c] for c in b.crossings],
        "ncons": len(b.constraints),
        "T": b.trials_per_sample(),
    }


def _is_hidden(f):
    from sweetpea._internal.primitive import HiddenName
    return isinstance(f.name, HiddenName)


def exec_ops(case, ops, op_timeout=60):
    import ir
    import sweetpea as sp
    out = []
    built = None
    t0 = time.time()
    old = signal.signal(signal.SIGALRM, _alarm)
    try:
        try:
            signal.alarm(op_timeout)
            with ir.quiet():
                built = ir.build(case)
            signal.alarm(0)
            rec = {"op": "build", "status": "built", "T": built.block.trials_per_sample()}
            try:
                rec["tps"] = [b.trials_per_sample() for b in built.blocks]
            except Exception:
                pass
            out.append(rec)
        except OpTimeout:
            out.append({"op": "build", "status": "timeout"})
            return out
        except BaseException as e:  # construction refused
            signal.alarm(0)
            out.append({"op": "build", "status": "rejected", "exc": type(e).__name__,
                        "msg": str(e)[:300], "site": _exc_site(e.__traceback__)})
            return out
        last_exps = None
        for op in ops:
            kind = op["op"]
            rec = {"op": kind}
            for k in ("strategy", "n", "tag"):
                if k in op:
                    rec[k] = op[k]
            t1 = time.time()
            try:
                signal.alarm(op.get("timeout", op_timeout))
                if kind == "synth":
                    with ir.quiet() as buf:
                        exps = sp.synthesize_trials(built.block, op["n"], _strategy(op["strategy"]))
                    signal.alarm(0)
                    last_exps = exps
                    rec["status"] = "returned"
                    rec["count"] = len(exps)
                    rec["exps"] = [ir.encode_experiment(case, e) for e in exps]
                    rec["keys"] = [[str(k) for k in e.keys()] for e in exps[:1]]
                    rec["printed_error"] = ("WARNING" not in buf.getvalue()) and any(
                        s in buf.getvalue() for s in ("unsatisfiable", "No level in", "No matches", "not satisfiable"))
                    if op.get("raw"):
                        rec["raw"] = exps
                elif kind == "sample":   # direct strategy call, to observe metrics
                    strat = _strategy(op["strategy"])
                    with ir.quiet():
                        if isinstance(strat, type):
                            res = strat.sample(built.block, op["n"])
                        else:
                            res = strat.sample_object(built.block, op["n"])
                    signal.alarm(0)
                    rec["status"] = "returned"
                    rec["count"] = len(res.samples)
                    m = res.metrics or {}
                    rec["metrics"] = {k: m[k] for k in ("solution_count",) if k in m}
                elif kind == "state":
                    signal.alarm(0)
                    rec["status"] = "returned"
                    rec["state"] = _design_state(built, case)
                elif kind == "mismatch":
                    cand = ir.decode_sequence(case, op["rows"]) if "rows" in op else dict(last_exps[op.get("i", 0)])
                    with ir.quiet():
                        r = sp.sample_mismatch_experiment(built.block, cand)
                    signal.alarm(0)
                    rec["status"] = "returned"
                    rec["mismatch"] = {k: [str(x) for x in v] for k, v in r.items()}
                elif kind in ("print", "tabulate", "to_tuples", "to_dicts", "save_csv"):
                    exps = last_exps if last_exps is not None else []
                    with ir.quiet() as buf:
                        if kind == "print":
                            sp.print_experiments(built.block, exps)
                        elif kind == "tabulate":
                            sp.tabulate_experiments(built.block, exps)
                        elif kind == "to_tuples":
                            rec["value"] = [[list(t) for t in e] for e in sp.experiments_to_tuples(built.block, exps)]
                        elif kind == "to_dicts":
                            rec["value"] = sp.experiments_to_dicts(built.block, exps)
                        elif kind == "save_csv":
                            with tempfile.TemporaryDirectory() as d:
                                sp.save_experiments_csv(built.block, exps, os.path.join(d, "x"))
                                files = sorted(os.listdir(d))
                                rec["files"] = files
                                rec["csv"] = [open(os.path.join(d, f)).read() for f in files]
                    signal.alarm(0)
                    rec["status"] = "returned"
                    rec["stdout"] = buf.getvalue()[:20000]
                else:
                    raise ValueError("unknown op " + kind)
            except OpTimeout:
                rec["status"] = "timeout"
            except BaseException as e:
                signal.alarm(0)
                rec["status"] = "raised"
                rec["exc"] = type(e).__name__
                rec["msg"] = str(e)[:300]
                rec["site"] = _exc_site(e.__traceback__)
            rec["wall"] = round(time.time() - t1, 3)
            out.append(rec)
    finally:
        signal.alarm(0)
        signal.signal(signal.SIGALRM, old)
    return out


def _worker(args):
    idx, case, ops, op_timeout = args
    os.environ.setdefault("PYTHONHASHSEED", "0")
    try:
        return idx, exec_ops(case, ops, op_timeout)
    except BaseException as e:  # harness failure, not an observation
        return idx, [{"op": "harness", "status": "harness_error", "exc": type(e).__name__,
                      "msg": traceback.format_exc()[-800:]}]


def run_tasks(tasks, op_timeout=60, nproc=None, chdir=None):
    """tasks: list of (case, ops).  Returns list of observation lists, same order."""
    nproc = nproc or min(16, os.cpu_count() or 4)
    results = [None] * len(tasks)
    if not tasks:
        return results
    cwd = os.getcwd()
    wd = chdir or tempfile.mkdtemp(prefix="impl_", dir=_workdir())
    os.chdir(wd)  # sweetpea writes its temporary .cnf files into the cwd
    try:
        ctx = mp.get_context("fork")
        with ctx.Pool(nproc, maxtasksperchild=50) as pool:
            it = pool.imap_unordered(_worker, [(i, c, o, op_timeout) for i, (c, o) in enumerate(tasks)], chunksize=1)
            for idx, res in it:
                results[idx] = res
    finally:
        os.chdir(cwd)
        if chdir is None:
            import shutil
            shutil.rmtree(wd, ignore_errors=True)
    return results


def _workdir():
    d = os.path.join(os.path.dirname(HERE), ".work")
    os.makedirs(d, exist_ok=True)
    return d
