"""Drive the real sweetpea implementation on IR cases inside worker processes.

Every task is (case, ops); the worker builds the objects and executes the ops in
order on the *same* objects (so histories can be expressed), returning one
observation record per op.  Nothing here decides validity.
"""
import multiprocessing as mp
import os
import signal
import sys
import tempfile
import time
import traceback

HERE = os.path.dirname(os.path.abspath(__file__))
if HERE not in sys.path:
    sys.path.insert(0, HERE)


class OpTimeout(BaseException):   # BaseException: the library catches Exception around solver calls
    pass


def _alarm(signum, frame):
    raise OpTimeout()


def _strategy(name):
    import sweetpea as sp
    if name.startswith("RandomGen") and name[9:].isdigit():
        return sp.RandomGen(int(name[9:]))
    return getattr(sp, name)


def _exc_site(tb):
    fr = traceback.extract_tb(tb)
    for f in reversed(fr):
        if "/sweetpea/" in f.filename:
            return "%s:%s" % (os.path.basename(f.filename), f.name)
    if fr:
        return "%s:%s" % (os.path.basename(fr[-1].filename), fr[-1].name)
    return "?"


def _design_state(built, case):
    """Projected abstract state of the block (for C19): names of design, continuous factors,
    crossings, number of constraints, trial count."""
    b = built.block
    return {
        "design": [str(getattr(f, "name", f)) if not _is_hidden(f) else "<hidden>" for f in b.design],
        "cont": [f.name for f in b.continuous_factors],
        "crossings": [[str(f.name) for f in c] for c in b.crossings],
        "ncons": len(b.constraints),
        "T": b.trials_per_sample(),
    }


def _is_hidden(f):
    from sweetpea._internal.primitive import HiddenName
    return isinstance(f.name, HiddenName)


class _NeedMore(BaseException):
    def __init__(self, n):
        self.n = n


class _Cut(BaseException):
    pass


def _drawtree(built, case, max_leaves):
    """Explore every sequence of random.randrange results for the FIRST candidate of RandomGen.sample(block, 1).
    The real sampler is run once per path with a scripted source; a second call of generate_random_samples means
    the first candidate was rejected."""
    import random as _random
    import ir
    import sweetpea as sp
    from sweetpea._internal.sampling_strategy import random as rg
    leaves = []
    truncated = False
    orig_rr = _random.randrange
    orig_gen = rg.UCSolutionEnumerator.generate_random_samples
    state = {}

    def rr(a, b=None):
        lo, hi = (0, a) if b is None else (a, b)
        n = hi - lo
        if state["pos"] < len(state["prefix"]):
            v = state["prefix"][state["pos"]]
        else:
            raise _NeedMore(n)
        state["pos"] += 1
        state["log"].append([n, v])
        return lo + v

    def gen(self, *a, **k):
        state["calls"] += 1
        if state["calls"] > 1:
            raise _Cut()
        return orig_gen(self, *a, **k)

    _random.randrange = rr
    rg.UCSolutionEnumerator.generate_random_samples = gen
    try:
        stack = [[]]
        while stack:
            prefix = stack.pop()
            if len(leaves) >= max_leaves:
                truncated = True
                break
            state.update(prefix=prefix, pos=0, log=[], calls=0)
            try:
                with ir.quiet():
                    res = sp.RandomGen.sample(built.block, 1)
                seq = ir.encode_experiment(case, built.block.add_implied_levels(dict(res.samples[0])))["s"] if res.samples else []
                leaves.append({"draws": list(state["log"]), "acc": bool(res.samples), "seq": seq})
            except _NeedMore as e:
                for v in range(e.n - 1, -1, -1):
                    stack.append(prefix + [v])
            except _Cut:
                leaves.append({"draws": list(state["log"]), "acc": False, "seq": []})
    finally:
        _random.randrange = orig_rr
        rg.UCSolutionEnumerator.generate_random_samples = orig_gen
    return {"leaves": leaves, "truncated": truncated}


def _smgen_sched(built, case, op):
    """SMGen under timer schedules: the search's random source is a seeded counter; a fake threading.Timer is fired from a
    second thread right before the k-th draw (k = None: never).  Returns the answers of every schedule."""
    import random as _random
    import threading
    import ir
    import sweetpea as sp
    from sweetpea._internal.sampling_strategy import scattered_map_core as smc
    runs = []
    real_timer, real_random = smc.threading.Timer, smc.random

    def one(fire_at, seed):
        st = {"draws": 0, "timer": None, "fired": False, "thread_exc": None, "cancelled_before_fire": False}
        rnd = _random.Random(seed)

        class FakeTimer:
            def __init__(self, interval, function, args=None, kwargs=None):
                self.function, self.args, self.kwargs = function, args or [], kwargs or {}
                self.cancelled = False
                st["timer"] = self

            def start(self):
                pass

            def cancel(self):
                self.cancelled = True

        def fire():
            t = st["timer"]
            if t is None or t.cancelled:
                st["cancelled_before_fire"] = True
                return
            st["fired"] = True

            def body():
                try:
                    t.function(*t.args, **t.kwargs)
                except BaseException as e:      # what threading would report through excepthook
                    st["thread_exc"] = type(e).__name__
            th = threading.Thread(target=body)
            th.start()
            th.join()

        def rand():
            if fire_at is not None and st["draws"] == fire_at and not st["fired"] and not st["cancelled_before_fire"]:
                fire()
            st["draws"] += 1
            return rnd.random()

        class FakeThreading:
            Timer = FakeTimer
        smc.threading = FakeThreading
        smc.random = rand
        try:
            with ir.quiet():
                exps = sp.synthesize_trials(built.block, op.get("n", 2), sp.SMGen)
            out = {"status": "returned", "exps": [ir.encode_experiment(case, e) for e in exps]}
        except OpTimeout:
            raise
        except BaseException as e:
            out = {"status": "raised", "exc": type(e).__name__, "msg": str(e)[:200]}
        finally:
            smc.threading = threading
            smc.random = real_random
        out.update(fire_at=fire_at, draws=st["draws"], fired=st["fired"], thread_exc=st["thread_exc"])
        return out

    base = one(None, op.get("seed", 0))
    runs.append(base)
    if base["status"] == "returned":
        D = max(base["draws"], 1)
        for frac in op.get("schedule", []):          # schedule points produced by TLC: j of STEPS
            runs.append(one(int(frac[0] * D // max(frac[1], 1)), op.get("seed", 0)))
    return {"runs": runs}


def _output(built, case, op):
    """run the output conversions and tabulations on synthesized and on given experiments"""
    import ir
    import sweetpea as sp
    b = built.block
    F = case["factors"]
    objs = built.factors
    if op.get("rows_list") is not None:
        exps = [ir.decode_sequence(case, rows) for rows in op["rows_list"]]
    else:
        with ir.quiet():
            exps = sp.synthesize_trials(b, op.get("n", 2), _strategy(op.get("strategy", "IterateSATGen")))
    ids = ir.design_ids(case["block"])
    order = [F[k - 1]["name"] for k in ids]
    out = {"order": order, "exps": [{k: list(v) for k, v in e.items()} for e in exps],
           "exposed": [str(k) for e in exps for k in e.keys() if not isinstance(k, str) or k not in order]}
    with ir.quiet():
        out["tuples"] = [[list(t) for t in e] for e in sp.experiments_to_tuples(b, exps)]
        out["dicts"] = sp.experiments_to_dicts(b, exps)
        with tempfile.TemporaryDirectory() as d:
            sp.save_experiments_csv(b, exps, os.path.join(d, "x"))
            out["csv"] = [list(open(os.path.join(d, "x_%d.csv" % k), "rb").read()) for k in range(len(exps))
                          if os.path.exists(os.path.join(d, "x_%d.csv" % k))]
    with ir.quiet() as pbuf:
        sp.print_experiments(b, exps)
    out["print"] = list(pbuf.getvalue().encode())
    tabs = []
    for tb in op.get("tabs", []):
        if isinstance(tb.get("trials"), dict):           # symbolic selection, resolved against the real length
            import random as _r
            n = len(next(iter(exps[0].values()))) if exps else 0
            rr = _r.Random(tb["trials"]["seed"])
            if n == 0:
                tb = dict(tb, trials=None)
            elif tb["trials"]["kind"] == "prefix":
                tb = dict(tb, trials=list(range(0, max(1, n // 2))))
            else:
                tb = dict(tb, trials=[rr.randrange(0, n) for _ in range(rr.randrange(1, n + 2))])
        facs = [objs[k - 1] for k in tb["factors"]] if tb.get("factors") else None
        with ir.quiet() as buf:
            if facs is None:
                sp.tabulate_experiments(b, exps, trials=tb.get("trials"))
            else:
                sp.tabulate_experiments(None, exps, factors=facs, trials=tb.get("trials"))
        tabs.append({"factors": tb.get("factors"), "trials": tb.get("trials"), "stdout": list(buf.getvalue().encode())})
    out["tabs"] = tabs
    return out


def _varmap(built, case, ncand, seed):
    """record the variable table of the block and decode randomly chosen one-hot assignments"""
    import random as _r
    import ir
    from sweetpea._internal.sampling_strategy.base import Gen
    from sweetpea._internal.server import build_cnf
    b = built.block
    F = case["factors"]
    names = {f["name"]: k + 1 for k, f in enumerate(F)}
    T = b.trials_per_sample()
    if (any(not isinstance(f.name, str) for f in b.design) or any(f.name not in names for f in b.act_design)
            or any(len(f.levels) != len(F[names[f.name] - 1]["levels"]) for f in b.act_design)):
        return {"skipped": "design was rewritten (weights)"}
    table, fvt_mismatch = [], False
    varfactors = [names[f.name] for f in b.act_design]
    for t in range(T):
        for f in b.act_design:
            su = b.sustain_count(f)
            if not f.applies_to_trial(t // su + 1):
                continue
            vs = []
            for li, l in enumerate(f.levels):
                v = b._encode_variable(f, l, t + 1)
                table.append([t, names[f.name], li + 1, v])
                if (f, l) not in b.exclude:
                    vs.append(v)
            if vs != b.factor_variables_for_trial(f, t + 1):
                fvt_mismatch = True
    vps = b.variables_per_sample()
    with ir.quiet():
        cnf = build_cnf(b)
    allv = set(abs(int(v)) for cl in cnf for v in cl)
    tabv = set(e[3] for e in table)
    aux = sorted(allv - tabv)
    rng = _r.Random(seed)
    cands = []
    ids = varfactors
    for _ in range(ncand):
        rows = [[0] * len(F) for _ in range(T)]
        assignment = []
        for e_t in range(T):
            for f in b.act_design:
                su = b.sustain_count(f)
                if not f.applies_to_trial(e_t // su + 1):
                    continue
                li = rng.randrange(len(f.levels))
                rows[e_t][names[f.name] - 1] = li + 1
                assignment.append(b._encode_variable(f, f.levels[li], e_t + 1))
        neg = [-v for v in sorted(tabv - set(assignment))]
        with ir.quiet():
            dec = Gen.decode(b, assignment + neg)
        cands.append({"rows": rows, "decoded": ir.encode_experiment(case, dec, ids)})
    return {"T": T, "vps": vps, "table": table, "varfactors": varfactors, "auxmin": (aux[0] if aux else 0),
            "fvt_mismatch": fvt_mismatch, "cands": cands}


class _Emitting(list):
    def __init__(self, emit):
        super().__init__()
        self._emit = emit

    def append(self, rec):
        super().append(rec)
        if self._emit:
            self._emit(rec)


def exec_ops(case, ops, op_timeout=60, emit=None):
    import ir
    import sweetpea as sp
    out = _Emitting(emit)
    built = None
    t0 = time.time()
    old = signal.signal(signal.SIGALRM, _alarm)
    try:
        try:
            signal.alarm(op_timeout)
            with ir.quiet():
                built = ir.build(case)
            signal.alarm(0)
            rec = {"op": "build", "status": "built", "T": built.block.trials_per_sample()}
            try:
                rec["tps"] = [b.trials_per_sample() for b in built.blocks]
            except Exception:
                pass
            out.append(rec)
        except OpTimeout:
            out.append({"op": "build", "status": "timeout"})
            return out
        except BaseException as e:  # construction refused
            signal.alarm(0)
            out.append({"op": "build", "status": "rejected", "exc": type(e).__name__,
                        "msg": str(e)[:300], "site": _exc_site(e.__traceback__)})
            return out
        last_exps = None
        for op in ops:
            kind = op["op"]
            rec = {"op": kind}
            for k in ("strategy", "n", "tag"):
                if k in op:
                    rec[k] = op[k]
            t1 = time.time()
            try:
                signal.alarm(op.get("timeout", op_timeout))
                if kind == "synth":
                    if case.get("continuous"):
                        del built.cont_log[:]          # calls recorded by an earlier op that timed out or raised
                    with ir.quiet() as buf:
                        exps = sp.synthesize_trials(built.block, op["n"], _strategy(op["strategy"]))
                    signal.alarm(0)
                    last_exps = exps
                    rec["status"] = "returned"
                    rec["count"] = len(exps)
                    rec["exps"] = [ir.encode_experiment(case, e) for e in exps]
                    if case.get("continuous"):
                        rec["cont"] = [{cd["name"]: [ir._enc_num(x) for x in e.get(cd["name"], [])] for cd in case["continuous"]
                                        if cd["name"] in e} for e in exps]
                        rec["cont_log"] = list(built.cont_log)
                        del built.cont_log[:]
                    rec["keys"] = [[str(k) for k in e.keys()] for e in exps[:1]]
                    rec["printed_error"] = ("WARNING" not in buf.getvalue()) and any(
                        s in buf.getvalue() for s in ("unsatisfiable", "No level in", "No matches", "not satisfiable"))
                    if op.get("raw"):
                        rec["raw"] = exps
                elif kind == "sample":   # direct strategy call, to observe metrics
                    strat = _strategy(op["strategy"])
                    with ir.quiet():
                        if isinstance(strat, type):
                            res = strat.sample(built.block, op["n"])
                        else:
                            res = strat.sample_object(built.block, op["n"])
                    signal.alarm(0)
                    rec["status"] = "returned"
                    rec["count"] = len(res.samples)
                    m = res.metrics or {}
                    rec["metrics"] = {k: m[k] for k in ("solution_count",) if k in m}
                elif kind == "state":
                    signal.alarm(0)
                    rec["status"] = "returned"
                    rec["state"] = _design_state(built, case)
                elif kind == "mismatch":
                    if "rows" in op:
                        cand = ir.decode_sequence(case, op["rows"])
                    elif last_exps:
                        cand = dict(last_exps[op.get("i", 0)])
                    else:       # nothing synthesized yet: any well-formed candidate
                        T = built.block.trials_per_sample()
                        cand = {f.name: [f.levels[0].name] * T for f in built.block.design if isinstance(f.name, str)}
                    with ir.quiet():
                        r = sp.sample_mismatch_experiment(built.block, cand)
                    signal.alarm(0)
                    rec["status"] = "returned"
                    rec["mismatch"] = {k: [str(x) for x in v] for k, v in r.items()}
                elif kind == "smgen_sched":
                    rec.update(_smgen_sched(built, case, op))
                    signal.alarm(0)
                    rec["status"] = "returned"
                elif kind == "output":
                    rec.update(_output(built, case, op))
                    signal.alarm(0)
                    rec["status"] = "returned"
                elif kind == "rg_keys":
                    # the size of RandomGen's key space, computed with the enumerator's own counting methods exactly as
                    # RandomGen.__sample combines them (preamble x per-round^rounds x leftover)
                    from sweetpea._internal.sampling_strategy.random import UCSolutionEnumerator
                    b = built.block
                    with ir.quiet():
                        en = UCSolutionEnumerator(b)
                        per_round = en.solution_count()
                        if per_round == 0:
                            keys = 0
                            rounds = leftover = 0
                        else:
                            tpr = b.trials_per_sample()
                            rounds = (tpr - en._preamble_size) // en.crossing_size
                            leftover = (tpr - en._preamble_size) % en.crossing_size
                            keys = en.preamble_solution_count() * pow(per_round, rounds) * en.leftover_solution_count()
                    signal.alarm(0)
                    rec["status"] = "returned"
                    rec["keys"] = keys if keys < 2 ** 62 else -1
                    rec["per_round"] = per_round if per_round < 2 ** 62 else -1
                    rec["rounds"] = rounds
                    rec["leftover"] = leftover
                elif kind == "still_sat":
                    # the compiled formula with one whole sequence pinned (unit clauses on its level variables):
                    # satisfiable iff the formula accepts exactly that sequence.  The first sequences also go through
                    # the public helper is_cnf_still_sat; the rest reuse one compilation (build_cnf) of the same block.
                    from sweetpea._internal.server import is_cnf_still_sat, build_cnf
                    from sweetpea._internal.core import CNF, cnf_is_satisfiable
                    from sweetpea._internal.logic import And, cnf_to_json
                    b = built.block
                    F = case["factors"]
                    byname = {f.name: f for f in b.act_design if isinstance(f.name, str)}
                    base = None
                    res = []
                    for k, rows in enumerate(op["rows_list"]):
                        lits = []
                        ok = len(rows) == b.trials_per_sample()
                        for t, row in enumerate(rows):
                            for fi, li in enumerate(row):
                                name = F[fi]["name"]
                                if name not in byname:
                                    continue
                                f = byname[name]
                                applies = f.applies_to_trial(t // b.sustain_count(f) + 1)
                                if len(f.levels) != len(F[fi]["levels"]) or (li > 0) != applies or li < 0:
                                    ok = False       # not expressible as pins (weights desugared / '' mismatch)
                                    continue
                                if li > 0:
                                    lits.append(b._encode_variable(f, f.levels[li - 1], t + 1))
                        if not ok:
                            res.append(None)
                            continue
                        # factors the block leaves out of the formula ("implied") are filled in by add_implied_levels when
                        # a model is decoded: the pipeline can return the candidate only if that fill-in reproduces it
                        implied = [(fi, f) for fi, fd in enumerate(F) for f in b.design
                                   if f.name == fd["name"] and f not in b.act_design]
                        if implied:
                            cols = {f.name: [("" if row[fi] <= 0 else F[fi]["levels"][row[fi] - 1]) for row in rows]
                                    for fi, fd in enumerate(F) for f in b.act_design if f.name == fd["name"]}
                            full = b.add_implied_levels(cols)
                            same = all(list(full.get(f.name, [])) ==
                                       [("" if row[fi] <= 0 else F[fi]["levels"][row[fi] - 1]) for row in rows]
                                       for fi, f in implied)
                            if not same:
                                res.append(False)
                                continue
                        with ir.quiet():
                            if base is None:
                                base = build_cnf(b)
                            r1 = bool(cnf_is_satisfiable(base + CNF(cnf_to_json([And(lits)]))))
                            if k < op.get("api", 2):
                                r2 = bool(is_cnf_still_sat(b, [And(lits)]))
                                if r1 != r2:
                                    r1 = "api-disagrees"
                        res.append(r1)
                    signal.alarm(0)
                    rec["status"] = "returned"
                    rec["results"] = res
                elif kind == "varmap":
                    rec.update(_varmap(built, case, op.get("ncand", 6), op.get("seed", 0)))
                    signal.alarm(0)
                    rec["status"] = "returned"
                elif kind == "cnf":
                    from sweetpea._internal.server import build_cnf
                    with ir.quiet():
                        failed = built.block.show_errors()
                        cnf = build_cnf(built.block)
                    signal.alarm(0)
                    cls = [[int(v) for v in cl] for cl in cnf]
                    rec["status"] = "returned"
                    rec["clauses"] = cls
                    rec["support"] = built.block.variables_per_sample()
                    rec["declared"] = cnf._num_vars
                    rec["maxvar"] = max([abs(l) for cl in cls for l in cl] + [0])
                    rec["errors"] = bool(failed)
                elif kind == "decode":
                    from sweetpea._internal.sampling_strategy.base import Gen
                    exps = []
                    for m in op["models"]:
                        with ir.quiet():
                            e = Gen.decode(built.block, list(m))
                            e = built.block.add_implied_levels(e)
                            e = {k: v for k, v in e.items() if not isinstance(k, ir.HiddenName)}   # as synthesize_trials does
                        exps.append(ir.encode_experiment(case, e))
                    signal.alarm(0)
                    rec["status"] = "returned"
                    rec["exps"] = exps
                    rec["count"] = len(exps)
                elif kind == "drawtree":
                    rec.update(_drawtree(built, case, op.get("max_leaves", 4000)))
                    signal.alarm(0)
                    rec["status"] = "returned"
                elif kind == "mismatch_many":
                    res = []
                    for rows in op["rows_list"]:
                        cand = ir.decode_sequence(case, rows)
                        try:
                            with ir.quiet():
                                r = sp.sample_mismatch_experiment(built.block, cand)
                            res.append({"status": "returned", "keys": sorted(r.keys())})
                        except OpTimeout:
                            raise
                        except BaseException as e:
                            res.append({"status": "raised", "exc": type(e).__name__, "msg": str(e)[:200],
                                        "site": _exc_site(e.__traceback__)})
                    signal.alarm(0)
                    rec["status"] = "returned"
                    rec["results"] = res
                elif kind in ("print", "tabulate", "to_tuples", "to_dicts", "save_csv"):
                    exps = last_exps if last_exps is not None else []
                    with ir.quiet() as buf:
                        if kind == "print":
                            sp.print_experiments(built.block, exps)
                        elif kind == "tabulate":
                            sp.tabulate_experiments(built.block, exps)
                        elif kind == "to_tuples":
                            rec["value"] = [[list(t) for t in e] for e in sp.experiments_to_tuples(built.block, exps)]
                        elif kind == "to_dicts":
                            rec["value"] = sp.experiments_to_dicts(built.block, exps)
                        elif kind == "save_csv":
                            with tempfile.TemporaryDirectory() as d:
                                sp.save_experiments_csv(built.block, exps, os.path.join(d, "x"))
                                files = sorted(os.listdir(d))
                                rec["files"] = files
                                rec["csv"] = [open(os.path.join(d, f)).read() for f in files]
                    signal.alarm(0)
                    rec["status"] = "returned"
                    rec["stdout"] = buf.getvalue()[:20000]
                else:
                    raise ValueError("unknown op " + kind)
            except OpTimeout:
                rec["status"] = "timeout"
            except BaseException as e:
                signal.alarm(0)
                rec["status"] = "raised"
                rec["exc"] = type(e).__name__
                rec["msg"] = str(e)[:300]
                rec["site"] = _exc_site(e.__traceback__)
            rec["wall"] = round(time.time() - t1, 3)
            out.append(rec)
    finally:
        signal.alarm(0)
        signal.signal(signal.SIGALRM, old)
    return out


def _emit_ops(case, ops, op_timeout, emit):
    """like exec_ops but streams every op record through emit(rec) as soon as it is known"""
    recs = exec_ops(case, ops, op_timeout, emit=emit)
    return recs


def _worker_loop(conn, op_timeout):
    os.environ.setdefault("PYTHONHASHSEED", "0")
    try:        # native solver libraries write to fd 1 directly; observations travel over the pipe only
        dn = os.open(os.devnull, os.O_WRONLY)
        os.dup2(dn, 1)
    except OSError:
        pass
    while True:
        try:
            msg = conn.recv()
        except EOFError:
            return
        if msg is None:
            return
        idx, case, ops = msg
        try:
            exec_ops(case, ops, op_timeout, emit=lambda rec: conn.send(("rec", idx, rec)))
            conn.send(("done", idx, None))
        except BaseException as e:  # harness failure, not an observation
            conn.send(("rec", idx, {"op": "harness", "status": "harness_error", "exc": type(e).__name__,
                                    "msg": traceback.format_exc()[-800:]}))
            conn.send(("done", idx, None))


class _Worker:
    def __init__(self, ctx, op_timeout):
        self.parent, child = ctx.Pipe()
        self.proc = ctx.Process(target=_worker_loop, args=(child, op_timeout), daemon=True)
        self.proc.start()
        child.close()
        self.task = None
        self.started = 0.0
        self.ntasks = 0


def run_tasks(tasks, op_timeout=60, nproc=None, chdir=None):
    """tasks: list of (case, ops).  Returns list of observation lists, same order.

    Every task runs in a worker process; records are streamed op by op, so that when a worker dies
    (a solver library aborting the process) or hangs inside native code, the ops finished so far are kept
    and the op in flight is recorded as status "crashed" / "timeout" - an observation like any other."""
    import multiprocessing.connection as mpc
    nproc = nproc or min(16, os.cpu_count() or 4)
    results = [[] for _ in tasks]
    if not tasks:
        return results
    cwd = os.getcwd()
    wd = chdir or tempfile.mkdtemp(prefix="impl_", dir=_workdir())
    os.chdir(wd)  # sweetpea writes its temporary .cnf files into the cwd
    ctx = mp.get_context("fork")
    pending = list(range(len(tasks)))[::-1]
    workers = []
    done = 0

    def hard_limit(idx):
        ops = tasks[idx][1]
        return op_timeout + sum(o.get("timeout", op_timeout) for o in ops) + 30

    def in_flight_op(idx):
        n = len(results[idx])          # records so far: build + finished ops
        ops = tasks[idx][1]
        if n == 0:
            return {"op": "build"}
        if n - 1 < len(ops):
            o = ops[n - 1]
            return {k: o[k] for k in ("op", "strategy", "n") if k in o}
        return {"op": "?"}

    def assign(w):
        if pending:
            idx = pending.pop()
            w.task = idx
            w.started = time.time()
            w.ntasks += 1
            w.parent.send((idx, tasks[idx][0], tasks[idx][1]))
            return True
        w.task = None
        return False

    try:
        for _ in range(min(nproc, len(tasks))):
            w = _Worker(ctx, op_timeout)
            workers.append(w)
            assign(w)
        while done < len(tasks):
            conns = [w.parent for w in workers if w.task is not None]
            ready = mpc.wait(conns, timeout=2.0)
            now = time.time()
            for w in list(workers):
                if w.task is None:
                    continue
                idx = w.task
                dead = False
                if w.parent in ready:
                    try:
                        while w.parent.poll():
                            kind, i, rec = w.parent.recv()
                            if kind == "rec":
                                results[i].append(rec)
                            elif kind == "done":
                                done += 1
                                w.task = None
                                break
                    except (EOFError, OSError):
                        dead = True
                if w.task is None:
                    if w.ntasks >= 40:       # recycle workers to bound leaks
                        try:
                            w.parent.send(None)
                        except OSError:
                            pass
                        workers.remove(w)
                        if pending:
                            nw = _Worker(ctx, op_timeout)
                            workers.append(nw)
                            assign(nw)
                    else:
                        assign(w)
                    continue
                if not dead and not w.proc.is_alive():
                    dead = True
                hung = (now - w.started) > hard_limit(idx)
                if dead or hung:
                    rec = in_flight_op(idx)
                    rec["status"] = "crashed" if dead else "timeout"
                    rec["exc"] = "ProcessDied" if dead else "HardTimeout"
                    rec["msg"] = "worker exit code %s" % w.proc.exitcode if dead else "no answer within the hard limit"
                    results[idx].append(rec)
                    done += 1
                    try:
                        w.proc.kill()
                    except Exception:
                        pass
                    workers.remove(w)
                    if pending:
                        nw = _Worker(ctx, op_timeout)
                        workers.append(nw)
                        assign(nw)
    finally:
        for w in workers:
            try:
                w.proc.kill()
            except Exception:
                pass
        os.chdir(cwd)
        if chdir is None:
            import shutil
            shutil.rmtree(wd, ignore_errors=True)
    return results


def _workdir():
    d = os.path.join(os.path.dirname(HERE), ".work")
    os.makedirs(d, exist_ok=True)
    return d
