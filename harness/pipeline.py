"""Shared pipeline: run the implementation on design cases, let TLC judge what it returned.

  observations  = impl.run_tasks(...)                       (real sweetpea objects)
  MCTrace       : every returned sequence replayed as a trace -> verdict per sequence, NB per case
  MCEnum        : every behaviour of the Design generator     -> MISSING records

Nothing in this file decides validity; it only routes data and aggregates TLC's records.
"""
import json
import os
import time

import export
import impl
import tlc

import os as _os
# IterateSATGen's exhaustion is quadratic in the number of solutions; larger spaces are trace-only
CAP = 600 if _os.environ.get("VERIF_TIER_EFFECTIVE", "quick") == "quick" else 1500


class CaseResult:
    def __init__(self, case, obs):
        self.case = case
        self.obs = obs                 # list of op records (obs[0] is the build record)
        self.nb = None                 # NB record from TLC: [ok, T, unsat, X] or [False, err]
        self.verdicts = {}             # op index -> list of verdict strings (one per returned experiment)
        self.missing = {}              # op index -> list of sequences the spec accepts but the op did not return
        self.enumerated = set()        # op indices whose exhausted set went through MCEnum
        self.trace_map = []            # trace index -> (op index, experiment index)
        self.mults = {}                # op index -> {experiment index: Mult(seq)} (R11)
        self.strict = {}               # op index -> {experiment index: verdict with error budget 0} (only with also_strict)
        self.mults_doc = {}            # the same with the documentation's reading for partially crossed factors (MultDoc)

    def op(self, i):
        return self.obs[i] if i < len(self.obs) else None

    @property
    def built(self):
        return self.obs and self.obs[0].get("status") == "built"


def run_design(cases, ops_fn, exhaust=lambda op: op.get("exhaust"), op_timeout=120, workers=16,
               tlc_timeout=1500, do_enum=True, stats=None, err=0, also_strict=False):
    """ops_fn(case) -> list of ops.  Ops with op["exhaust"] true are compared as *sets* with the
    specification's valid set (enumerate mode) when the implementation returned fewer than op["n"]."""
    t0 = time.time()
    tasks = [(c, ops_fn(c)) for c in cases]
    obs = impl.run_tasks(tasks, op_timeout=op_timeout)
    results = [CaseResult(c, o) for (c, _), o in zip(tasks, obs)]
    t_impl = time.time() - t0

    # ---- trace mode: all returned sequences + block arithmetic
    tcases = []
    for r, (c, ops) in zip(results, tasks):
        traces = []
        for oi, rec in enumerate(r.obs):
            if rec.get("op") == "synth" and rec.get("status") == "returned":
                for ei, e in enumerate(rec["exps"]):
                    r.trace_map.append((oi, ei))
                    traces.append(e)
        tcases.append(export.tlc_case(c, traces=traces, enum=False))
    path = tlc.write_cases(tcases, "trace")
    tr = tlc.run_with_norm("MCTrace.tla", "MCTrace.cfg", path, workers=workers, timeout=tlc_timeout,
                           env={"VERIF_ERR": str(err)} if err else None)
    strict = None
    if err and also_strict:        # the same traces against the design as documented (budget 0): how many used the budget
        strict = tlc.run_with_norm("MCTrace.tla", "MCTrace.cfg", path, workers=workers, timeout=tlc_timeout)
    os.unlink(path)
    if strict is not None:
        for rec in strict.records:
            if rec[0] == "V":
                r = results[rec[1] - 1]
                oi, ei = r.trace_map[rec[2] - 1]
                r.strict.setdefault(oi, {})[ei] = rec[3]
    for rec in tr.records:
        if rec[0] == "NB":
            results[rec[1] - 1].nb = rec[2:]
        elif rec[0] == "V":
            r = results[rec[1] - 1]
            oi, ei = r.trace_map[rec[2] - 1]
            r.verdicts.setdefault(oi, {})[ei] = rec[3]
            r.mults.setdefault(oi, {})[ei] = rec[4] if len(rec) > 4 else 0
            r.mults_doc.setdefault(oi, {})[ei] = rec[5] if len(rec) > 5 else 0
    for r in results:
        if r.nb is None:
            raise tlc.TLCError("no NB record for case %s" % r.case.get("id"))
        for oi, rec in enumerate(r.obs):
            if rec.get("op") == "synth" and rec.get("status") == "returned":
                d = r.verdicts.get(oi, {})
                if len(d) != len(rec["exps"]):
                    raise tlc.TLCError("missing verdicts for case %s op %d" % (r.case.get("id"), oi))
                r.verdicts[oi] = [d[i] for i in range(len(rec["exps"]))]
    states, distinct = tr.states, tr.distinct
    t_trace = tr.wall

    # ---- enumerate mode: one TLC case per (case, exhausted op)
    t_enum = 0.0
    n_enum = 0
    if do_enum:
        ecases, emap = [], []
        for ri, (r, (c, ops)) in enumerate(zip(results, tasks)):
            if not r.built or not r.nb[0] or r.nb[2]:
                continue
            for oi, rec in enumerate(r.obs):
                if rec.get("op") != "synth" or rec.get("status") != "returned":
                    continue
                op = ops[oi - 1]
                if not exhaust(op) or rec["count"] >= op["n"]:
                    continue
                ecases.append(export.tlc_case(c, impl=[e["s"] for e in rec["exps"] if e["n"] >= 0], enum=True))
                emap.append((ri, oi))
        if ecases:
            path = tlc.write_cases(ecases, "enum")
            er = tlc.run_with_norm("MCEnum.tla", "MCEnum.cfg", path, env={"VERIF_PRUNE": "1"},
                                  workers=workers, timeout=tlc_timeout)
            os.unlink(path)
            for ri, oi in emap:
                results[ri].enumerated.add(oi)
                results[ri].missing.setdefault(oi, [])
            for rec in er.records:
                if rec[0] == "MISSING":
                    ri, oi = emap[rec[1] - 1]
                    results[ri].missing[oi].append(rec[2])
            states += er.states
            distinct += er.distinct
            t_enum = er.wall
            n_enum = len(ecases)
    if stats is not None:
        stats["states"] = stats.get("states", 0) + distinct
        stats["transitions"] = stats.get("transitions", 0) + states
        stats["traces"] = stats.get("traces", 0) + sum(len(r.trace_map) for r in results)
        stats["enum_cases"] = stats.get("enum_cases", 0) + n_enum
        stats["t_impl"] = round(stats.get("t_impl", 0) + t_impl, 1)
        stats["t_trace"] = round(stats.get("t_trace", 0) + t_trace, 1)
        stats["t_enum"] = round(stats.get("t_enum", 0) + t_enum, 1)
    return results
